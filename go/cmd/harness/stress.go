package main

import (
	"os"
	"fmt"
	"math/rand"
	"sort"
	"strings"
	"sync"
	"sync/atomic"
	"time"

	"github.com/lorenzodonini/ocpp-go/ocpp"
	"github.com/lorenzodonini/ocpp-go/ocpp1.6/core"
	"github.com/lorenzodonini/ocpp-go/ocppj"
	"github.com/lorenzodonini/ocpp-go/ws"
)

// Concurrent stress with seeded random delays at every injected interface ("gates"): request queue, pending
// state, fake websocket, handlers. A global log records the linearisation points; the checks at the end are
// the schedule-quantified clauses of C01 C02 C07 C08 C11 read on the real code. A search, not a proof.

type slog struct {
	mu   sync.Mutex
	evs  []sev
	seq  int64
	rmu  sync.Mutex
	r    *rand.Rand
	maxD time.Duration
	// single-stall exploration: no random delays; the j-th hit of gate site `stallSite` sleeps for stallDur
	directed  bool
	stallSite string
	stallIdx  int
	stallDur  time.Duration
	hits      map[string]int
}

// gateAt is a named gate (site = interface method about to run / just run)
func (l *slog) gateAt(site string) {
	if !l.directed {
		l.gate()
		return
	}
	l.rmu.Lock()
	if l.hits == nil {
		l.hits = map[string]int{}
	}
	l.hits[site]++
	n := l.hits[site]
	l.rmu.Unlock()
	if site == l.stallSite && n == l.stallIdx {
		time.Sleep(l.stallDur)
	}
}

type sev struct {
	t      time.Time
	kind   string // accepted rejected push wrote pop resp err cancel-timeout cancel-write disconnect connect
	client string
	id     string
}

func (l *slog) add(kind, client, id string) {
	l.mu.Lock()
	l.evs = append(l.evs, sev{time.Now(), kind, client, id})
	l.mu.Unlock()
}

// gate: a point where the scheduler may be perturbed
func (l *slog) gate() {
	if l.directed {
		return
	}
	l.rmu.Lock()
	k := l.r.Intn(10)
	d := time.Duration(l.r.Int63n(int64(l.maxD) + 1))
	l.rmu.Unlock()
	switch {
	case k < 5:
	case k < 8:
		for i := 0; i < 3; i++ {
			time.Sleep(0)
		}
	default:
		time.Sleep(d)
	}
}

type gQueue struct {
	q      *ocppj.FIFOClientQueue
	l      *slog
	client string
	mu     sync.Mutex // makes (operation, log entry) atomic so that the log order is the queue order
}

func bundleID(e interface{}) string {
	if b, ok := e.(ocppj.RequestBundle); ok && b.Call != nil {
		return b.Call.UniqueId
	}
	return "?"
}
func (g *gQueue) Init() { g.l.gateAt("queue.Init"); g.q.Init() }
func (g *gQueue) Push(e interface{}) error {
	g.l.gateAt("queue.Push<")
	g.mu.Lock()
	err := g.q.Push(e)
	if err == nil {
		g.l.add("push", g.client, bundleID(e))
	}
	g.mu.Unlock()
	g.l.gateAt("queue.Push>")
	return err
}
func (g *gQueue) Peek() interface{} {
	g.l.gateAt("queue.Peek<")
	e := g.q.Peek()
	g.l.gateAt("queue.Peek>")
	return e
}
func (g *gQueue) Pop() interface{} {
	g.l.gateAt("queue.Pop<")
	g.mu.Lock()
	e := g.q.Pop()
	if e != nil {
		g.l.add("pop", g.client, bundleID(e))
	}
	g.mu.Unlock()
	g.l.gateAt("queue.Pop>")
	return e
}
func (g *gQueue) Size() int     { return g.q.Size() }
func (g *gQueue) IsFull() bool  { return g.q.IsFull() }
func (g *gQueue) IsEmpty() bool {
	g.l.gateAt("queue.IsEmpty<")
	b := g.q.IsEmpty()
	g.l.gateAt("queue.IsEmpty>")
	return b
}

type gQueueMap struct {
	mu  sync.Mutex
	m   map[string]ocppj.RequestQueue
	cap int
	l   *slog
}

func (g *gQueueMap) Init() {
	g.mu.Lock()
	g.m = map[string]ocppj.RequestQueue{}
	g.mu.Unlock()
}
func (g *gQueueMap) Get(c string) (ocppj.RequestQueue, bool) {
	g.l.gateAt("qmap.Get<")
	g.mu.Lock()
	defer g.mu.Unlock()
	q, ok := g.m[c]
	return q, ok
}
func (g *gQueueMap) GetOrCreate(c string) ocppj.RequestQueue {
	g.mu.Lock()
	defer g.mu.Unlock()
	q, ok := g.m[c]
	if !ok {
		q = &gQueue{q: ocppj.NewFIFOClientQueue(g.cap), l: g.l, client: c}
		g.m[c] = q
	}
	return q
}
func (g *gQueueMap) Remove(c string) {
	g.l.gateAt("qmap.Remove<")
	g.mu.Lock()
	delete(g.m, c)
	g.mu.Unlock()
	// the true end of the client's session at the ocppj layer: a request pushed (by a sender that had fetched the queue)
	// between the harness's `disconnect` line and this point belongs to the session that ends here
	g.l.add("removed", c, "")
}
// allEmpty: every registered queue is empty (the queues of removed clients do not count)
func (g *gQueueMap) allEmpty() bool {
	g.mu.Lock()
	qs := make([]ocppj.RequestQueue, 0, len(g.m))
	for _, q := range g.m {
		qs = append(qs, q)
	}
	g.mu.Unlock()
	for _, q := range qs {
		if gq, ok := q.(*gQueue); ok {
			if !gq.q.IsEmpty() {
				return false
			}
		} else if !q.IsEmpty() {
			return false
		}
	}
	return true
}

func (g *gQueueMap) Add(c string, q ocppj.RequestQueue) {
	g.mu.Lock()
	g.m[c] = q
	g.mu.Unlock()
}

type gState struct {
	s ocppj.ClientState
	l *slog
}

func (g *gState) AddPendingRequest(id string, r ocpp.Request) {
	g.l.gateAt("state.Add<")
	g.s.AddPendingRequest(id, r)
	g.l.gateAt("state.Add>")
}
func (g *gState) GetPendingRequest(id string) (ocpp.Request, bool) {
	r, ok := g.s.GetPendingRequest(id)
	g.l.gateAt("state.Get>")
	return r, ok
}
func (g *gState) DeletePendingRequest(id string) {
	g.l.gateAt("state.Delete<")
	g.s.DeletePendingRequest(id)
	g.l.gateAt("state.Delete>")
}
func (g *gState) ClearPendingRequests()           { g.s.ClearPendingRequests() }
func (g *gState) HasPendingRequest() bool {
	g.l.gateAt("state.Has<")
	b := g.s.HasPendingRequest()
	g.l.gateAt("state.Has>")
	return b
}

// ---------------------------------------------------------------- checks over the log

// which connection events happened on client c between two instants (context of a duplicate write)
func between(evs []sev, c string, a, b time.Time) string {
	ctx := map[string]bool{}
	for _, e := range evs {
		if e.client == c && !e.t.Before(a) && !e.t.After(b) {
			switch e.kind {
			case "connect", "disconnect", "disconnect-event", "cancel-timeout", "cancel-write":
				ctx[strings.TrimSuffix(e.kind, "-event")] = true
			}
		}
	}
	var ks []string
	for k := range ctx {
		ks = append(ks, k)
	}
	sort.Strings(ks)
	if len(ks) == 0 {
		return ""
	}
	return "[" + strings.Join(ks, ",") + "]"
}

type stressCfg struct {
	server   bool
	timeout  time.Duration
	flaps    bool
	name     string
	nclients int
	calm     bool
}

func checkLog(prop string, evs []sev, T time.Duration, finalDrain bool, viol func(prop, sig, what string, replay interface{})) {
	type key struct{ c, id string }
	wrote := map[key][]time.Time{}
	concl := map[key][]string{}
	accepted := map[key]bool{}
	rejected := map[key]bool{}
	pushOrder := map[string][]string{}
	wroteOrder := map[string][]string{}
	dropped := map[key]bool{} // requests dropped by a disconnect / stop (no conclusion owed at the ocppj layer)
	lastWrote := map[string]string{}
	popped := map[key]bool{}
	// client endpoints: the link as the endpoint was told last (a delayed disconnect notification can arrive after the
	// notification of the reconnection: the endpoint then rightly stays paused and retains its queue)
	linkDown := map[string]bool{}
	dump := func(c string) []string {
		var r []string
		for _, e := range evs {
			if e.client == c || e.client == "" {
				r = append(r, fmt.Sprintf("%s %s %s %s", e.t.Format("05.000000"), e.kind, e.client, e.id))
			}
		}
		if len(r) > 400 {
			r = r[len(r)-400:]
		}
		return r
	}
	for _, e := range evs {
		k := key{e.client, e.id}
		switch e.kind {
		case "accepted":
			accepted[k] = true
		case "rejected":
			rejected[k] = true
		case "push":
			accepted[k] = true // a successful Push is the acceptance point of the send API
			pushOrder[e.client] = append(pushOrder[e.client], e.id)
		case "pop":
			popped[k] = true
		case "wrote":
			if lw := lastWrote[e.client]; lw != "" && !popped[key{e.client, lw}] && !dropped[key{e.client, lw}] {
				viol("C02", "two-outstanding", fmt.Sprintf("%s: CALL %s written to %q while %s is still outstanding (not answered, failed or timed out)", prop, e.id, e.client, lw), dump(e.client))
			}
			lastWrote[e.client] = e.id
			wrote[k] = append(wrote[k], e.t)
			wroteOrder[e.client] = append(wroteOrder[e.client], e.id)
		case "resp", "err", "cancel-timeout", "cancel-write":
			concl[k] = append(concl[k], e.kind)
			if e.kind == "cancel-timeout" {
				if w := wrote[k]; len(w) == 0 {
					viol("C08", "timeout-of-unwritten", fmt.Sprintf("%s: request %s for %q reported as timed out but it was never written", prop, e.id, e.client), dump(e.client))
				} else if e.t.Sub(w[len(w)-1]) < T-2*time.Millisecond {
					viol("C08", "timeout-early", fmt.Sprintf("%s: request %s for %q reported as timed out %v after it was written (timeout %v)", prop, e.id, e.client, e.t.Sub(w[len(w)-1]), T), dump(e.client))
				}
			}
		case "disconnect-event":
			linkDown[e.client] = true
		case "connect":
			linkDown[e.client] = false
		case "disconnect", "stop", "removed":
			for kk := range accepted {
				if (kk.c == e.client || e.kind == "stop") && len(concl[kk]) == 0 {
					dropped[kk] = true
				}
			}
			if e.kind == "stop" {
				lastWrote = map[string]string{}
			} else {
				delete(lastWrote, e.client)
			}
		}
	}
	for k, w := range wrote {
		if len(w) > 1 {
			viol("C02", "written-twice", fmt.Sprintf("%s: CALL %s written %d times to %q", prop, k.id, len(w), k.c), dump(k.c))
		}
		if !accepted[k] && !rejected[k] {
			continue
		}
		if rejected[k] {
			viol("C01", "rejected-but-written", fmt.Sprintf("%s: request %s for %q was rejected by the send API but written", prop, k.id, k.c), dump(k.c))
		}
	}
	for k, c := range concl {
		if len(c) > 1 {
			sort.Strings(c)
			viol("C01", "concluded-twice", fmt.Sprintf("%s: request %s for %q concluded %d times: %v", prop, k.id, k.c, len(c), c), dump(k.c))
		}
		if !accepted[k] {
			viol("C01", "foreign-conclusion", fmt.Sprintf("%s: conclusion %v for id %s on %q which the send API did not accept", prop, c, k.id, k.c), dump(k.c))
		}
	}
	// FIFO: wrote order is a subsequence of push order
	for c, w := range wroteOrder {
		p := pushOrder[c]
		i := 0
		for _, id := range w {
			for i < len(p) && p[i] != id {
				i++
			}
			if i == len(p) {
				viol("C02", "write-order", fmt.Sprintf("%s: CALLs to %q written out of acceptance order (%s)", prop, c, id), dump(c))
				break
			}
			i++
		}
	}
	if finalDrain {
		for k := range accepted {
			if len(concl[k]) == 0 && !dropped[k] && !linkDown[k.c] {
				viol("C01", "never-concluded", fmt.Sprintf("%s: request %s for %q was accepted but never concluded although every CALL was answered or left to time out and the endpoint went idle", prop, k.id, k.c), dump(k.c))
			}
		}
	}
}

// ---------------------------------------------------------------- workloads

func stressServerRound(seed int64, cfg stressCfg, viol func(prop, sig, what string, replay interface{})) (ops int) {
	r := rand.New(rand.NewSource(seed))
	l := &slog{r: rand.New(rand.NewSource(seed + 1)), maxD: 300 * time.Microsecond}
	fs := newFakeServer()
	qm := &gQueueMap{m: map[string]ocppj.RequestQueue{}, cap: []int{0, 0, 2, 5}[r.Intn(4)], l: l}
	d := ocppj.NewDefaultServerDispatcher(qm)
	d.SetTimeout(cfg.timeout)
	srv := ocppj.NewServer(fs, d, nil, core.Profile)
	srv.SetDialect(ocpp.V16)
	var idc int64
	ocppj.SetMessageIdGenerator(func() string { return fmt.Sprintf("r%d", atomic.AddInt64(&idc, 1)) })
	pendingReplies := make(chan srvWrite, 1000)
	fs.onWrite = func(c string, data []byte) {
		fr, err := parseFrame(data)
		if err == nil && fr.Type == 2 {
			l.add("wrote", c, fr.ID)
			select {
			case pendingReplies <- srvWrite{c, []byte(fr.ID)}:
			default:
			}
		}
		l.gate()
	}
	srv.SetResponseHandler(func(ch ws.Channel, rr ocpp.Response, id string) { l.add("resp", ch.ID(), id); l.gateAt("handler.resp") })
	srv.SetErrorHandler(func(ch ws.Channel, e *ocpp.Error, det interface{}) { l.add("err", ch.ID(), e.MessageId); l.gateAt("handler.err") })
	srv.SetRequestHandler(func(ch ws.Channel, rr ocpp.Request, id string, action string) {})
	srv.SetCanceledRequestHandler(func(c, id string, rr ocpp.Request, e *ocpp.Error) {
		if e.Code == ocppj.GenericError {
			l.add("cancel-timeout", c, id)
		} else {
			l.add("cancel-write", c, id)
		}
		l.gateAt("handler.cancel")
	})
	go srv.Start(0, "/")
	for i := 0; i < 5000 && !d.IsRunning(); i++ {
		time.Sleep(50 * time.Microsecond)
	}
	clients := []string{"A", "B", "C", "D"}[:cfg.nclients]
	for _, c := range clients {
		fs.connect(c)
		l.add("connect", c, "")
	}
	var wg sync.WaitGroup
	stopResp := make(chan struct{})
	// responder: answers written CALLs (sometimes late, never, twice, or with a foreign id)
	var respWG sync.WaitGroup
	for w := 0; w < 2; w++ {
		respWG.Add(1)
		go func(w int) {
			defer respWG.Done()
			rr := rand.New(rand.NewSource(seed + 100 + int64(w)))
			for {
				select {
				case <-stopResp:
					return
				case pw := <-pendingReplies:
					id := string(pw.data)
					k := rr.Intn(20)
					if cfg.calm {
						k = 0
					}
					switch {
					case k < 11: // prompt reply
					case k < 14: // slow reply (may race the timeout)
						time.Sleep(cfg.timeout - time.Duration(rr.Int63n(int64(cfg.timeout/2)+1)) + time.Duration(rr.Int63n(int64(cfg.timeout/2)+1)))
					case k < 17: // never answered -> timeout
						continue
					case k == 17: // foreign id first
						_ = fs.deliver(pw.client, []byte(fmt.Sprintf(`[3,"zz%s",{"status":"Accepted"}]`, id)))
					default: // duplicate reply
						_ = fs.deliver(pw.client, []byte(fmt.Sprintf(`[3,"%s",{"status":"Accepted"}]`, id)))
					}
					if rr.Intn(4) == 0 {
						_ = fs.deliver(pw.client, []byte(fmt.Sprintf(`[4,"%s","GenericError","x",{}]`, id)))
					} else {
						_ = fs.deliver(pw.client, []byte(fmt.Sprintf(`[3,"%s",{"status":"Accepted"}]`, id)))
					}
				}
			}
		}(w)
	}
	// senders
	nsend := 3 + r.Intn(4)
	per := 4 + r.Intn(8)
	if cfg.calm {
		// stay below the capacity of the request channel (20): bursts above it are the rough configuration's job
		nsend, per = 2+r.Intn(2), 3+r.Intn(4)
	}
	for sdr := 0; sdr < nsend; sdr++ {
		wg.Add(1)
		go func(sdr int) {
			defer wg.Done()
			rr := rand.New(rand.NewSource(seed + 1000 + int64(sdr)))
			for i := 0; i < per; i++ {
				c := clients[rr.Intn(len(clients))]
				_ = srv.SendRequest(c, core.NewClearCacheRequest())
				if rr.Intn(3) == 0 {
					time.Sleep(time.Duration(rr.Int63n(int64(minDur(cfg.timeout, 10*time.Millisecond)))))
				}
			}
		}(sdr)
	}
	// connection flaps
	if cfg.flaps {
		wg.Add(1)
		go func() {
			defer wg.Done()
			rr := rand.New(rand.NewSource(seed + 7))
			for i := 0; i < 3; i++ {
				time.Sleep(time.Duration(rr.Int63n(int64(2 * cfg.timeout))))
				c := clients[rr.Intn(len(clients))]
				l.add("disconnect", c, "")
				fs.disconnect(c)
				time.Sleep(time.Duration(rr.Int63n(int64(cfg.timeout))))
				fs.connect(c)
				l.add("connect", c, "")
			}
		}()
	}
	done := make(chan struct{})
	go func() { wg.Wait(); close(done) }()
	wedged := false
	select {
	case <-done:
	case <-time.After(10 * time.Second):
		wedged = true
	}
	// drain: let every outstanding request be answered or time out, queue by queue
	if !wedged {
		step := minDur(cfg.timeout, 20*time.Millisecond) + 3*time.Millisecond
		deadline := time.Now().Add(time.Duration(per*nsend+4) * step)
		if cfg.calm {
			deadline = time.Now().Add(3 * time.Second)
		}
		for time.Now().Before(deadline) {
			time.Sleep(step)
			// (drained = nothing pending AND nothing queued: between two requests nothing is pending for a moment)
			if d.IsRunning() && !srv.RequestState.HasPendingRequests() && qm.allEmpty() && len(pendingReplies) == 0 {
				time.Sleep(step)
				if !srv.RequestState.HasPendingRequests() && qm.allEmpty() {
					break
				}
			}
		}
		// the deadline is an estimate: as long as the endpoint still makes progress (the log grows) it is draining, not
		// stuck. Only an endpoint with something pending that logs nothing for 6 steps has stopped (hard cap 8 s).
		hard := time.Now().Add(8 * time.Second)
		size := func() int { l.mu.Lock(); defer l.mu.Unlock(); return len(l.evs) }
		last, since := size(), time.Now()
		for !cfg.calm && (srv.RequestState.HasPendingRequests() || !qm.allEmpty()) && time.Now().Before(hard) {
			time.Sleep(step)
			if n := size(); n != last {
				last, since = n, time.Now()
			} else if time.Since(since) > 6*step {
				break
			}
		}
	}
	stuck, quiet := quiesce(1 * time.Second)
	close(stopResp)
	l.mu.Lock()
	evs := append([]sev{}, l.evs...)
	l.mu.Unlock()
	if wedged || len(stuck) > 0 || !quiet {
		var where []string
		for _, g := range libGoroutines() {
			where = append(where, g.state+" @ "+g.top+" "+g.where)
		}
		sort.Strings(where)
		sg := sigOfBlocked(where)
		viol("C07", sg, fmt.Sprintf("%s: the endpoint did not go idle: API callers wedged=%v, goroutines blocked for ever: %v", cfg.name, wedged, where), map[string]interface{}{"seed": seed, "goroutines": where})
	} else {
		checkLog(cfg.name, evs, cfg.timeout, true, viol)
		if os.Getenv("STRESS_DEBUG") != "" {
			fmt.Fprintf(os.Stderr, "DEBUG pending=%v now=%s\n", srv.RequestState.HasPendingRequests(), time.Now().Format("05.000000"))
			for _, g := range libGoroutines() {
				fmt.Fprintf(os.Stderr, "DEBUG %s @ %s %s\n", g.state, g.top, g.where)
			}
		}
	}
	if wedged || len(stuck) > 0 {
		return len(evs) // cannot stop a wedged endpoint safely
	}
	func() {
		defer func() { _ = recover() }()
		srv.Stop()
	}()
	return len(evs)
}

func stressClientRound(seed int64, cfg stressCfg, viol func(prop, sig, what string, replay interface{})) (ops int) {
	r := rand.New(rand.NewSource(seed))
	l := &slog{r: rand.New(rand.NewSource(seed + 1)), maxD: 300 * time.Microsecond}
	fc := &fakeClient{}
	q := &gQueue{q: ocppj.NewFIFOClientQueue([]int{0, 0, 2, 5}[r.Intn(4)]), l: l, client: ""}
	d := ocppj.NewDefaultClientDispatcher(q)
	d.SetTimeout(cfg.timeout)
	st := &gState{s: ocppj.NewClientState(), l: l}
	c := ocppj.NewClient("cp", fc, d, st, core.Profile)
	c.SetDialect(ocpp.V16)
	var idc int64
	ocppj.SetMessageIdGenerator(func() string { return fmt.Sprintf("r%d", atomic.AddInt64(&idc, 1)) })
	pendingReplies := make(chan string, 1000)
	fc.onWrite = func(data []byte) {
		fr, err := parseFrame(data)
		if err == nil && fr.Type == 2 {
			l.add("wrote", "", fr.ID)
			select {
			case pendingReplies <- fr.ID:
			default:
			}
		}
		l.gateAt("ws.Write>")
	}
	c.SetResponseHandler(func(rr ocpp.Response, id string) { l.add("resp", "", id); l.gateAt("handler.resp") })
	c.SetErrorHandler(func(e *ocpp.Error, det interface{}) { l.add("err", "", e.MessageId); l.gateAt("handler.err") })
	c.SetRequestHandler(func(rr ocpp.Request, id string, action string) {})
	c.SetOnRequestCanceled(func(id string, rr ocpp.Request, e *ocpp.Error) {
		if e.Code == ocppj.GenericError {
			l.add("cancel-timeout", "", id)
		} else {
			l.add("cancel-write", "", id)
		}
		l.gateAt("handler.cancel")
	})
	_ = c.Start("ws://fake")
	var wg sync.WaitGroup
	stopResp := make(chan struct{})
	var connMu sync.RWMutex // replies are delivered only while the fake connection is up
	go func() {
		rr := rand.New(rand.NewSource(seed + 100))
		for {
			select {
			case <-stopResp:
				return
			case id := <-pendingReplies:
				k := rr.Intn(20)
				if cfg.calm {
					k = 0
				}
				switch {
				case k < 11:
				case k < 14:
					time.Sleep(cfg.timeout - time.Duration(rr.Int63n(int64(cfg.timeout/2)+1)) + time.Duration(rr.Int63n(int64(cfg.timeout/2)+1)))
				case k < 17:
					continue
				case k == 17:
					connMu.RLock()
					_ = fc.deliver([]byte(fmt.Sprintf(`[3,"zz%s",{"currentTime":"2020-01-01T00:00:00Z"}]`, id)))
					connMu.RUnlock()
				default:
					connMu.RLock()
					_ = fc.deliver([]byte(fmt.Sprintf(`[3,"%s",{"currentTime":"2020-01-01T00:00:00Z"}]`, id)))
					connMu.RUnlock()
				}
				connMu.RLock()
				if rr.Intn(4) == 0 {
					_ = fc.deliver([]byte(fmt.Sprintf(`[4,"%s","GenericError","x",{}]`, id)))
				} else {
					_ = fc.deliver([]byte(fmt.Sprintf(`[3,"%s",{"currentTime":"2020-01-01T00:00:00Z"}]`, id)))
				}
				connMu.RUnlock()
			}
		}
	}()
	nsend := 2 + r.Intn(4)
	per := 4 + r.Intn(8)
	if cfg.calm {
		nsend, per = 2+r.Intn(2), 3+r.Intn(4)
	}
	for sdr := 0; sdr < nsend; sdr++ {
		wg.Add(1)
		go func(sdr int) {
			defer wg.Done()
			rr := rand.New(rand.NewSource(seed + 1000 + int64(sdr)))
			for i := 0; i < per; i++ {
				_ = c.SendRequest(core.NewHeartbeatRequest())
				if rr.Intn(3) == 0 {
					time.Sleep(time.Duration(rr.Int63n(int64(minDur(cfg.timeout, 10*time.Millisecond)))))
				}
			}
		}(sdr)
	}
	if cfg.flaps {
		wg.Add(1)
		go func() {
			defer wg.Done()
			rr := rand.New(rand.NewSource(seed + 7))
			for i := 0; i < 3; i++ {
				time.Sleep(time.Duration(rr.Int63n(int64(2 * cfg.timeout))))
				connMu.Lock()
				l.add("disconnect-event", "", "")
				fc.drop(fmt.Errorf("lost"))
				time.Sleep(time.Duration(rr.Int63n(int64(cfg.timeout))))
				fc.reconnect()
				l.add("connect", "", "")
				connMu.Unlock()
			}
		}()
	}
	done := make(chan struct{})
	go func() { wg.Wait(); close(done) }()
	wedged := false
	select {
	case <-done:
	case <-time.After(10 * time.Second):
		wedged = true
	}
	if !wedged {
		step := minDur(cfg.timeout, 20*time.Millisecond) + 3*time.Millisecond
		deadline := time.Now().Add(time.Duration(per*nsend+4) * step)
		if cfg.calm {
			deadline = time.Now().Add(3 * time.Second)
		}
		for time.Now().Before(deadline) {
			time.Sleep(step)
			if !st.s.HasPendingRequest() && q.q.IsEmpty() && len(pendingReplies) == 0 {
				break
			}
		}
		// (as on the server: keep waiting while the endpoint still makes progress)
		hard := time.Now().Add(8 * time.Second)
		size := func() int { l.mu.Lock(); defer l.mu.Unlock(); return len(l.evs) }
		last, since := size(), time.Now()
		for !cfg.calm && fc.IsConnected() && (st.s.HasPendingRequest() || !q.q.IsEmpty()) && time.Now().Before(hard) {
			time.Sleep(step)
			if n := size(); n != last {
				last, since = n, time.Now()
			} else if time.Since(since) > 6*step {
				break
			}
		}
	}
	stuck, quiet := quiesce(1 * time.Second)
	close(stopResp)
	l.mu.Lock()
	evs := append([]sev{}, l.evs...)
	l.mu.Unlock()
	if wedged || len(stuck) > 0 || !quiet {
		var where []string
		for _, g := range libGoroutines() {
			where = append(where, g.state+" @ "+g.top+" "+g.where)
		}
		sort.Strings(where)
		sg := sigOfBlocked(where)
		viol("C07", sg, fmt.Sprintf("%s: the endpoint did not go idle: API callers wedged=%v, goroutines blocked for ever: %v", cfg.name, wedged, where), map[string]interface{}{"seed": seed, "goroutines": where})
		return len(evs)
	}
	checkLog(cfg.name, evs, cfg.timeout, true, viol)
	func() {
		defer func() { _ = recover() }()
		c.Stop()
	}()
	return len(evs)
}

func minDur(a, b time.Duration) time.Duration {
	if a < b {
		return a
	}
	return b
}

type roundResult struct {
	Violations []Violation `json:"violations"`
	Events     int         `json:"events"`
}

// sigOfBlocked names a deadlock by the function in which the root goroutine is parked: a channel send first
// (the capacity-1 / capacity-20 channels), else the timer drain of Pause, else a lock acquisition.
func sigOfBlocked(where []string) string {
	fnOf := func(w string) string {
		i := strings.Index(w, "@ ")
		fn := strings.TrimPrefix(w[i+2:], "harness-callback>")
		for _, cut := range []string{"(0x", "({", " "} {
			if j := strings.Index(fn, cut); j > 0 {
				fn = fn[:j]
			}
		}
		fn = fn[strings.LastIndex(fn, "/")+1:]
		fn = strings.TrimPrefix(fn, "ocppj.")
		fn = strings.NewReplacer("(*DefaultClientDispatcher).", "client:", "(*DefaultServerDispatcher).", "server:", "(*Client).", "client:", "(*Server).", "server:").Replace(fn)
		if j := strings.Index(fn, ".func"); j > 0 {
			fn = fn[:j]
		}
		return fn
	}
	var send, recv, lock []string
	for _, w := range where {
		switch {
		case strings.HasPrefix(w, "chan send"):
			send = append(send, fnOf(w))
		case strings.HasPrefix(w, "chan receive") && strings.Contains(w, "Dispatcher).Pause"):
			recv = append(recv, fnOf(w))
		case strings.HasPrefix(w, "sync.") || strings.HasPrefix(w, "semacquire"):
			lock = append(lock, fnOf(w))
		}
	}
	for _, l := range [][]string{send, recv, lock} {
		if len(l) > 0 {
			sort.Strings(l)
			return "deadlock:" + l[0]
		}
	}
	return "deadlock:unknown"
}

func init() {
	rounds["disp_stress"] = func(seed int64, i int) roundResult {
		var res roundResult
		kind := "client"
		if i%2 == 0 {
			kind = "server"
		}
		calm := i%3 == 0
		if calm {
			kind += "-calm"
		}
		viol := func(prop, sig, what string, replay interface{}) {
			if !strings.HasPrefix(sig, "deadlock:") && !strings.HasPrefix(sig, "panic:") {
				sig = sig + ":" + kind
			} else if calm {
				sig = sig + ":calm"
			}
			for _, v := range res.Violations {
				if v.Sig == sig {
					return
				}
			}
			res.Violations = append(res.Violations, Violation{Property: prop, Sig: sig, What: what, Replay: replay})
		}
		T := []time.Duration{4 * time.Millisecond, 8 * time.Millisecond, 15 * time.Millisecond}[i%3]
		if calm {
			// calm configuration: prompt replies only, generous timeout, no connection flaps: nothing may go wrong here
			T = 2 * time.Second
		}
		if i%2 == 0 {
			res.Events = stressServerRound(seed*1000+int64(i), stressCfg{server: true, timeout: T, flaps: !calm && i%4 == 0, name: "ocppj.Server", nclients: 1 + i%4, calm: calm}, viol)
		} else {
			res.Events = stressClientRound(seed*1000+int64(i), stressCfg{timeout: T, flaps: !calm && i%4 == 1, name: "ocppj.Client", calm: calm}, viol)
		}
		return res
	}
	monitors["disp_stress"] = func(seed int64, tier string) interface{} {
		n := 48
		if tier == "thorough" {
			n = 600
		}
		rep := &Report{Monitor: "disp_stress", Rule: "concurrent workloads (2-6 senders, 2 responders answering promptly / late / never / twice / with foreign ids, connection flaps) on the real ocppj client and server (1-4 clients) with seeded random delays at every injected interface (queue, queue map, pending state, fake websocket, handlers), each round in its own process; per round the global log of linearisation points is checked for: written at most once, one outstanding per connection (a pop of the previous CALL precedes the next write), write order = acceptance order, concluded at most once and only if accepted, every accepted request concluded once the endpoint is idle, time-outs never early, no goroutine wedged, no panic; distinct = rounds with more than 20 logged linearisation points", Stats: map[string]interface{}{}}
		results := runRounds("disp_stress", seed, n, 8)
		total := 0
		seen := map[string]bool{}
		for _, r := range results {
			total += r.Events
			if r.Events > 20 {
				rep.Distinct++
			}
			rep.Evaluations++
			for _, v := range r.Violations {
				if !seen[v.Sig] {
					seen[v.Sig] = true
					rep.Violations = append(rep.Violations, v)
				}
			}
		}
		rep.Stats["log_events"] = total
		rep.Samples = []interface{}{map[string]interface{}{"round": "server, 3 clients, timeout 8ms, flaps", "log": "push A r1; wrote A r1; push A r2; pop A r1; resp A r1; wrote A r2; cancel-timeout A r2; ..."}}
		return rep
	}
}
