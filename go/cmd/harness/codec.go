package main

import (
	"bytes"
	"encoding/json"
	"fmt"
	"hash/fnv"
	"math/rand"
	"os"
	"path/filepath"
	"reflect"
	"strconv"
	"strings"

	"github.com/lorenzodonini/ocpp-go/ocpp"
	"github.com/lorenzodonini/ocpp-go/ocppj"
)

// suite codec (C04, C05): payloads generated from the committed constraint snapshot (expected/schemas.json: the stand-in
// for the OCPP constraints) — valid ones in every optional-field mode and single-constraint mutants — are run through the
// real ocppj.Endpoint of both dialects: ParseMessage (receiver), CreateCall / CreateCallResult + MarshalJSON (sender), and
// ParseMessage + MarshalJSON on a second endpoint (round trip).
//   p <ver> <feature> <req|resp> <label> <mutation> <escapeHTML 0|1> | <schema tokens of the CURRENT tree> | <JSON tokens>
// label = what the constraints say about the payload: valid | required | property | enum | format
// output: recv=<ok|code> send=<ok|err|na> re=<hash of the re-serialised payload tree|-> rt=<1|0|-> stable=<1|0|->

type codec struct{}

func init() {
	suites["codec"] = codec{}
	childSuites["codec"] = func(ops []string, emit func(string)) {
		for _, l := range ops {
			emit(guard(func() string { return codecOne(l) }))
		}
	}
	monitors["schemas_dump"] = func(seed int64, tier string) interface{} {
		out := map[string]*sTy{}
		for _, e := range allSchemas() {
			out[e.Ver+"/"+e.Feature+"/"+e.Dir] = e.Ty
		}
		return out
	}
}

func (codec) Run(ops []string, emit func(string)) { runIsolated("codec", ops, emit) }

func loadSpecSchemas() map[string]*sTy {
	out := map[string]*sTy{}
	b, err := os.ReadFile(filepath.Join(verifRoot(), "expected", "schemas.json"))
	if err == nil {
		_ = json.Unmarshal(b, &out)
	}
	return out
}

func tagOf(tags [][2]string, name string) (string, bool) {
	for _, t := range tags {
		if t[0] == "dive" {
			break
		}
		if t[0] == name {
			return t[1], true
		}
	}
	return "", false
}

func diveTags(tags [][2]string) [][2]string {
	for i, t := range tags {
		if t[0] == "dive" {
			return tags[i+1:]
		}
	}
	return nil
}

func atoiOr(s string, d int) int {
	if v, err := strconv.Atoi(s); err == nil {
		return v
	}
	return d
}

type jgen struct {
	r    *rand.Rand
	mode string // min | full | rand
}

func (g *jgen) opt() bool {
	switch g.mode {
	case "min":
		return false
	case "full":
		return true
	}
	return g.r.Intn(2) == 0
}

var specials = []string{"é", "ß", "<", ">", "&", "'", "日", "😀", "/", "\\", "\"", " ", "\\u003c", "\\u0026", "\u2028"}

func (g *jgen) text(lo, hi int) string {
	if hi < lo {
		hi = lo
	}
	n := lo
	if hi > lo {
		switch g.r.Intn(4) {
		case 0:
			n = hi
		case 1:
			n = lo
		default:
			n = lo + g.r.Intn(hi-lo+1)
		}
	}
	if n > 20000 {
		n = 20000
	}
	var rs []rune
	for len(rs) < n {
		if g.r.Intn(7) == 0 {
			rs = append(rs, []rune(specials[g.r.Intn(len(specials))])...)
		} else {
			rs = append(rs, rune('a'+g.r.Intn(26)))
		}
	}
	return string(rs[:n])
}

// value builds a valid JSON value for a field of type t with the given tags (the field is going to be present)
func (g *jgen) value(t *sTy, tags [][2]string) interface{} {
	switch t.Kind {
	case "ptr":
		return g.value(t.Elem, tags)
	case "str":
		if _, ok := tagOf(tags, "uri"); ok {
			return "http://example.com/a"
		}
		if _, ok := tagOf(tags, "url"); ok {
			return "http://example.com/a"
		}
		lo, hi := 1, 12
		if v, ok := tagOf(tags, "min"); ok {
			lo = atoiOr(v, lo)
		}
		if v, ok := tagOf(tags, "max"); ok {
			hi = atoiOr(v, hi)
			if lo > hi {
				lo = hi
			}
		} else if hi < lo {
			hi = lo + 5
		}
		return g.text(lo, hi)
	case "enum":
		if len(t.Enum) == 0 {
			return "x"
		}
		return t.Enum[g.r.Intn(len(t.Enum))]
	case "int", "float":
		lo, hi := 1, 1000
		if v, ok := tagOf(tags, "gte"); ok {
			lo = atoiOr(v, lo)
		}
		if v, ok := tagOf(tags, "gt"); ok {
			lo = atoiOr(v, lo) + 1
		}
		if v, ok := tagOf(tags, "min"); ok {
			lo = atoiOr(v, lo)
		}
		if v, ok := tagOf(tags, "lte"); ok {
			hi = atoiOr(v, hi)
		}
		if v, ok := tagOf(tags, "max"); ok {
			hi = atoiOr(v, hi)
		}
		if v, ok := tagOf(tags, "lt"); ok {
			hi = atoiOr(v, hi) - 1
		}
		if hi < lo {
			hi = lo
		}
		n := lo
		switch g.r.Intn(4) {
		case 0:
			n = hi
		case 1:
			n = lo
		default:
			n = lo + g.r.Intn(hi-lo+1)
		}
		_, req := tagOf(tags, "required")
		if n == 0 && req && hi > 0 {
			n = 1 // `required` rejects the zero value
		}
		if t.Kind == "float" && g.r.Intn(3) == 0 && n < hi {
			return float64(n) + 0.5
		}
		return n
	case "bool":
		if _, req := tagOf(tags, "required"); req {
			return true
		}
		return g.r.Intn(2) == 0
	case "time":
		if _, sv := tagOf(tags, "svRequired"); !sv && g.r.Intn(6) == 0 {
			return "0001-01-01T00:00:00Z" // the zero time is a timestamp like any other
		}
		return []string{"2020-01-01T00:00:00Z", "2023-12-31T23:59:59Z", "1999-06-15T12:30:00Z"}[g.r.Intn(3)]
	case "any":
		return []interface{}{"some data", 42, map[string]interface{}{"a": 1, "b": "x"}, []interface{}{1, 2}}[g.r.Intn(4)]
	case "slice":
		lo, hi := 1, 2
		if v, ok := tagOf(tags, "min"); ok {
			lo = atoiOr(v, lo)
		}
		if v, ok := tagOf(tags, "max"); ok {
			hi = atoiOr(v, hi)
		}
		if hi < lo {
			hi = lo
		}
		if hi > lo+3 {
			hi = lo + 3
		}
		n := lo + g.r.Intn(hi-lo+1)
		_, uniq := tagOf(tags, "unique")
		arr := []interface{}{}
		seen := map[string]bool{}
		for k := 0; k < n; k++ {
			v := g.value(t.Elem, diveTags(tags))
			if uniq {
				key := fmt.Sprint(v)
				if seen[key] {
					continue
				}
				seen[key] = true
			}
			arr = append(arr, v)
		}
		return arr
	case "struct":
		return g.object(t)
	}
	return nil
}

func present(tags [][2]string, g *jgen) bool {
	if _, req := tagOf(tags, "required"); req {
		return true
	}
	return g.opt()
}

func (g *jgen) object(t *sTy) map[string]interface{} {
	o := map[string]interface{}{}
	for _, f := range t.Fields {
		if f.Ty.Kind == "unsupported" {
			continue
		}
		_, req := tagOf(f.Tags, "required")
		_, sv := tagOf(f.Tags, "svRequired")
		if _, su := tagOf(f.Tags, "svUnless"); su {
			sv = true
		}
		must := req || sv || (!f.Omit && (f.Ty.Kind == "time" || f.Ty.Kind == "struct")) || (!f.Omit && !zeroAllowed(f))
		if !must && !g.opt() {
			// absent optional field; a non-omitempty one will be materialised by the encoder: keep the value in normal
			// form by writing its zero value explicitly
			if !f.Omit {
				o[f.Key] = zeroOf(f.Ty)
			}
			continue
		}
		v := g.value(f.Ty, f.Tags)
		if f.Omit && isEmptyGo(v) {
			continue
		}
		o[f.Key] = v
	}
	return o
}

// zeroAllowed: may a non-omitempty field be left at its zero value (absent on the wire)?
// foreignValues: constants of other enumerations that this field does not declare; the enumerations whose Go type has the
// same name in another package come first (FirmwareStatus of firmware / securefirmware, the 1.6 / 2.0.1 twins ...)
func foreignValues(t *sTy) []string {
	loadEnumsByType()
	own := map[string]bool{}
	for _, v := range t.Enum {
		own[v] = true
	}
	tn := t.GoType[strings.LastIndex(t.GoType, ".")+1:]
	var keys []string
	for k := range enumByType {
		keys = append(keys, k)
	}
	sortStrings(keys)
	var first, rest []string
	seen := map[string]bool{}
	for _, k := range keys {
		same := strings.HasSuffix(k, "."+tn)
		for _, v := range enumByType[k] {
			if own[v] || seen[v] {
				continue
			}
			seen[v] = true
			if same {
				first = append(first, v)
			} else {
				rest = append(rest, v)
			}
		}
	}
	if len(first) > 12 {
		first = first[:12]
	}
	if len(rest) > 2 {
		rest = rest[:2]
	}
	return append(first, rest...)
}

func zeroAllowed(f sField) bool {
	if _, ok := tagOf(f.Tags, "omitempty"); ok {
		return true
	}
	switch f.Ty.Kind {
	case "int", "float":
		if v, ok := tagOf(f.Tags, "gt"); ok && atoiOr(v, 0) >= 0 {
			return false
		}
		if v, ok := tagOf(f.Tags, "gte"); ok && atoiOr(v, 0) > 0 {
			return false
		}
		if v, ok := tagOf(f.Tags, "min"); ok && atoiOr(v, 0) > 0 {
			return false
		}
	case "str":
		if v, ok := tagOf(f.Tags, "min"); ok && atoiOr(v, 0) > 0 {
			return false
		}
	case "enum":
		return false
	case "slice":
		if v, ok := tagOf(f.Tags, "min"); ok && atoiOr(v, 0) > 0 {
			return false
		}
	}
	return true
}

func zeroOf(t *sTy) interface{} {
	switch t.Kind {
	case "str", "enum":
		return ""
	case "int", "float":
		return 0
	case "bool":
		return false
	case "time":
		return "0001-01-01T00:00:00Z"
	case "struct":
		o := map[string]interface{}{}
		for _, f := range t.Fields {
			if f.Omit && f.Ty.Kind != "struct" && f.Ty.Kind != "time" {
				continue
			}
			o[f.Key] = zeroOf(f.Ty)
		}
		return o
	}
	return nil
}

func isEmptyGo(v interface{}) bool {
	switch x := v.(type) {
	case nil:
		return true
	case string:
		return x == ""
	case int:
		return x == 0
	case float64:
		return x == 0
	case bool:
		return !x
	case []interface{}:
		return len(x) == 0
	}
	return false
}

// a mutation site: a (path into nested objects, field) pair with the constraint to break
type msite struct {
	obj   map[string]interface{}
	f     sField
	label string
	desc  string
	apply func()
}

func (g *jgen) sites(t *sTy, o map[string]interface{}, path string, out *[]msite) {
	for _, f := range t.Fields {
		f := f
		v, has := o[f.Key]
		p := path + "." + f.Key
		base := f.Ty
		for base.Kind == "ptr" {
			base = base.Elem
		}
		if _, req := tagOf(f.Tags, "required"); req && has && base.Kind != "struct" && base.Kind != "time" {
			*out = append(*out, msite{o, f, "required", "drop:" + p, func() { delete(o, f.Key) }})
		}
		if _, sv := tagOf(f.Tags, "svRequired"); sv && has {
			*out = append(*out, msite{o, f, "required", "drop:" + p, func() { delete(o, f.Key) }})
		}
		if !has {
			continue
		}
		for _, tg := range f.Tags {
			if tg[0] == "dive" {
				break
			}
			n := atoiOr(tg[1], 0)
			switch tg[0] {
			case "max", "lte":
				switch base.Kind {
				case "str":
					_, isUri := tagOf(f.Tags, "uri")
					_, isUrl := tagOf(f.Tags, "url")
					if n < 20000 && !isUri && !isUrl {
						*out = append(*out, msite{o, f, "property", "over-max:" + p, func() { o[f.Key] = g.text(n+1, n+1) }})
						*out = append(*out, msite{o, f, "valid", "at-max:" + p, func() { o[f.Key] = g.text(n, n) }})
					}
				case "int", "float":
					*out = append(*out, msite{o, f, "property", "over-max:" + p, func() { o[f.Key] = n + 1 }})
				case "slice":
					if n < 40 {
						*out = append(*out, msite{o, f, "property", "over-max:" + p, func() {
							arr := []interface{}{}
							for k := 0; k <= n; k++ {
								arr = append(arr, g.value(base.Elem, diveTags(f.Tags)))
							}
							o[f.Key] = arr
						}})
					}
				}
			case "min", "gte":
				switch base.Kind {
				case "str":
					if n > 0 {
						*out = append(*out, msite{o, f, "property", "under-min:" + p, func() { o[f.Key] = g.text(n-1, n-1) }})
					}
				case "int", "float":
					*out = append(*out, msite{o, f, "property", "under-min:" + p, func() { o[f.Key] = n - 1 }})
					if _, req := tagOf(f.Tags, "required"); !(req && n == 0) {
						*out = append(*out, msite{o, f, "valid", "at-min:" + p, func() { o[f.Key] = n }})
					}
				case "slice":
					if n > 0 {
						*out = append(*out, msite{o, f, "property", "empty-array:" + p, func() { o[f.Key] = []interface{}{} }})
					}
				}
			case "gt":
				if base.Kind == "int" || base.Kind == "float" {
					*out = append(*out, msite{o, f, "property", "not-gt:" + p, func() { o[f.Key] = n }})
				}
			}
		}
		switch base.Kind {
		case "enum":
			for _, ev := range base.Enum {
				ev := ev
				*out = append(*out, msite{o, f, "valid", "enum-value:" + p + "=" + strings.ReplaceAll(ev, " ", "_"), func() { o[f.Key] = ev }})
			}
			*out = append(*out, msite{o, f, "enum", "undeclared:" + p, func() { o[f.Key] = "NotAnEnumValue" }})
			// values of other enumerations (same-named types of other packages first): undeclared for this field
			for _, fv := range foreignValues(base) {
				fv := fv
				*out = append(*out, msite{o, f, "enum", "foreign:" + p + "=" + strings.ReplaceAll(fv, " ", "_"), func() { o[f.Key] = fv }})
			}
			*out = append(*out, msite{o, f, "format", "wrong-type:" + p, func() { o[f.Key] = 7 }})
		case "str":
			if g.r.Intn(3) == 0 {
				*out = append(*out, msite{o, f, "format", "wrong-type:" + p, func() { o[f.Key] = 7 }})
			}
		case "int":
			if g.r.Intn(3) == 0 {
				*out = append(*out, msite{o, f, "format", "wrong-type:" + p, func() { o[f.Key] = "seven" }})
			}
		case "bool":
			*out = append(*out, msite{o, f, "format", "wrong-type:" + p, func() { o[f.Key] = "yes" }})
		case "struct":
			if m, ok := v.(map[string]interface{}); ok {
				g.sites(base, m, p, out)
			}
		case "slice":
			el := base.Elem
			for el.Kind == "ptr" {
				el = el.Elem
			}
			if arr, ok := v.([]interface{}); ok && len(arr) > 0 {
				if el.Kind == "struct" {
					if m, ok := arr[0].(map[string]interface{}); ok {
						g.sites(el, m, p+"[0]", out)
					}
				}
				if el.Kind == "enum" {
					*out = append(*out, msite{o, f, "enum", "undeclared-element:" + p, func() { arr[0] = "NotAnEnumValue" }})
				}
			}
		}
	}
}

func (codec) Gen(r *rand.Rand, n int) []string {
	spec := loadSpecSchemas()
	cur := map[string]*sTy{}
	for _, e := range allSchemas() {
		cur[e.Ver+"/"+e.Feature+"/"+e.Dir] = e.Ty
	}
	var keys []string
	for k := range spec {
		keys = append(keys, k)
	}
	sortStrings(keys)
	var out []string
	for _, k := range keys {
		st := spec[k]
		ct, ok := cur[k]
		if !ok {
			continue
		}
		var sb strings.Builder
		ct.tokens(&sb)
		schemaTok := sb.String()
		p := strings.Split(k, "/")
		emitLine := func(label, desc string, v interface{}) {
			var jb strings.Builder
			// through encoding/json so that numbers look as on the wire
			b, _ := json.Marshal(v)
			tokensOf(parseNumTree(b), &jb)
			out = append(out, fmt.Sprintf("p %s %s %s %s %s %d |%s |%s", p[0], p[1], p[2], label, desc, r.Intn(2), schemaTok, jb.String()))
		}
		// every enumeration value of every reachable enumeration field, once per payload type
		{
			g := &jgen{r: r, mode: "full"}
			o := g.object(st)
			var ss []msite
			g.sites(st, o, "", &ss)
			for _, sx := range ss {
				if strings.HasPrefix(sx.desc, "enum-value:") || strings.HasPrefix(sx.desc, "foreign:") {
					g2 := &jgen{r: r, mode: "full"}
					o2 := g2.object(st)
					var ss2 []msite
					g2.sites(st, o2, "", &ss2)
					for _, sy := range ss2 {
						if sy.desc == sx.desc {
							sy.apply()
							emitLine(sy.label, sy.desc, o2)
							break
						}
					}
				}
			}
		}
		// n = lines per payload type
		for i := 0; i < n; i++ {
			g := &jgen{r: r, mode: []string{"min", "full", "rand", "rand"}[i%4]}
			o := g.object(st)
			if i%3 == 0 || len(st.Fields) == 0 {
				emitLine("valid", g.mode, o)
				continue
			}
			var ss []msite
			g.sites(st, o, "", &ss)
			if len(ss) == 0 {
				emitLine("valid", g.mode, o)
				continue
			}
			s := ss[r.Intn(len(ss))]
			s.apply()
			emitLine(s.label, s.desc, o)
		}
	}
	// CALL_ERROR frames: every OCPP-J error code (both dialect spellings), descriptions and details of several shapes
	for _, ver := range []string{"R16", "R201"} {
		for _, code := range ocppjErrorCodes {
			for k, det := range []string{"Z", "O0", "O1 K61 N1:1", "S64657461696c"} {
				_ = k
				desc := []string{"", "some description", "with <html> & \"quotes\" é 😀"}[r.Intn(3)]
				out = append(out, fmt.Sprintf("e %s %s h%s %d | %s", ver, code, hx(desc), r.Intn(2), det))
			}
		}
	}
	return out
}

// the error codes of OCPP-J 1.6 and 2.0.1 (specification; not read from the repository)
var ocppjErrorCodes = []string{"NotImplemented", "NotSupported", "InternalError", "ProtocolError", "SecurityError", "FormationViolation", "FormatViolation",
	"PropertyConstraintViolation", "OccurenceConstraintViolation", "OccurrenceConstraintViolation", "TypeConstraintViolation", "GenericError", "MessageTypeNotSupported", "NoSuchCode"}

func parseNumTree(b []byte) interface{} {
	d := json.NewDecoder(bytes.NewReader(b))
	d.UseNumber()
	var v interface{}
	_ = d.Decode(&v)
	return v
}

func fnvHex(s string) string {
	h := fnv.New64a()
	h.Write([]byte(s))
	return fmt.Sprintf("%016x", h.Sum64())
}

type fixedState struct{ req ocpp.Request }

func (s *fixedState) AddPendingRequest(string, ocpp.Request)          {}
func (s *fixedState) GetPendingRequest(id string) (ocpp.Request, bool) { return s.req, id == "q1" }
func (s *fixedState) DeletePendingRequest(string)                     {}
func (s *fixedState) ClearPendingRequests()                           {}
func (s *fixedState) HasPendingRequest() bool                         { return true }

func codecErrorFrame(l string) string {
	parts := strings.SplitN(l, "|", 2)
	f := fields(parts[0])
	if len(f) != 5 || len(parts) != 2 {
		return "bad-op"
	}
	ver, code := f[1], f[2]
	db, _ := hexDecode(strings.TrimPrefix(f[3], "h"))
	ocppj.SetHTMLEscape(f[4] == "1")
	defer ocppj.SetHTMLEscape(true)
	details, err := treeFromTokens(fields(parts[1]))
	if err != nil {
		return "bad-tokens"
	}
	mk := func() *ocppj.Endpoint {
		ep := &ocppj.Endpoint{}
		for _, p := range profileList(ver) {
			ep.AddProfile(p)
		}
		if ver == "R201" {
			ep.SetDialect(ocpp.V2)
		} else {
			ep.SetDialect(ocpp.V16)
		}
		return ep
	}
	a, b := mk(), mk()
	ce, err := a.CreateCallError("q1", ocpp.ErrorCode(code), string(db), details)
	if err != nil {
		return "send=err"
	}
	out, err := ce.MarshalJSON()
	if err != nil {
		return "send=marshal-err"
	}
	w, _ := parseNumTree(out).([]interface{})
	shape := len(w) == 5 && w[0] == json.Number("4") && w[1] == "q1" && w[2] == code && w[3] == string(db)
	st := &fixedState{req: reflect.New(featureOf(ver, "Heartbeat").GetRequestType()).Interface().(ocpp.Request)}
	rt := "0"
	if arr, err := ocppj.ParseRawJsonMessage(out); err == nil {
		if m2, err := b.ParseMessage(arr, st); err == nil && m2 != nil {
			if e2, ok := m2.(*ocppj.CallError); ok && string(e2.ErrorCode) == code && e2.ErrorDescription == string(db) && e2.UniqueId == "q1" {
				if out2, err := m2.MarshalJSON(); err == nil && bytes.Equal(out2, out) {
					rt = "1"
				}
			}
		}
	}
	return fmt.Sprintf("send=ok shape=%v rt=%s", shape, rt)
}

func codecOne(l string) string {
	if strings.HasPrefix(l, "e ") {
		return codecErrorFrame(l)
	}
	parts := strings.SplitN(l, "|", 3)
	f := fields(parts[0])
	if len(f) != 7 || f[0] != "p" || len(parts) != 3 {
		return "bad-op"
	}
	ver, feature, dir := f[1], f[2], f[3]
	ocppj.SetHTMLEscape(f[6] == "1")
	defer ocppj.SetHTMLEscape(true)
	payloadTree, err := treeFromTokens(fields(parts[2]))
	if err != nil {
		return "bad-tokens"
	}
	payload, _ := json.Marshal(payloadTree)
	feat := featureOf(ver, feature)
	if feat == nil {
		return "no-feature"
	}
	mk := func() *ocppj.Endpoint {
		ep := &ocppj.Endpoint{}
		for _, p := range profileList(ver) {
			ep.AddProfile(p)
		}
		if ver == "R201" {
			ep.SetDialect(ocpp.V2)
		} else {
			ep.SetDialect(ocpp.V16)
		}
		return ep
	}
	a, b := mk(), mk()
	st := &fixedState{}
	var frame string
	goType := feat.GetRequestType()
	if dir == "req" {
		frame = fmt.Sprintf(`[2,"q1","%s",%s]`, feature, payload)
	} else {
		goType = feat.GetResponseType()
		st.req = reflect.New(feat.GetRequestType()).Interface().(ocpp.Request)
		frame = fmt.Sprintf(`[3,"q1",%s]`, payload)
	}
	// receiver
	recv := "ok"
	arr, err := ocppj.ParseRawJsonMessage([]byte(frame))
	if err != nil {
		return "frame-not-json"
	}
	msg, perr := b.ParseMessage(arr, st)
	err = perr
	if err != nil {
		if oe, ok := err.(*ocpp.Error); ok {
			recv = string(oe.Code)
		} else {
			recv = "goerr"
		}
	} else if msg == nil {
		recv = "discarded"
	}
	// sender
	send, re, rt, stable := "na", "-", "-", "-"
	v := reflect.New(goType)
	if err := json.Unmarshal(payload, v.Interface()); err == nil {
		var out []byte
		var cerr error
		if dir == "req" {
			var call *ocppj.Call
			call, cerr = a.CreateCall(v.Interface().(ocpp.Request))
			if cerr == nil {
				call.UniqueId = "q1"
				out, cerr = call.MarshalJSON()
			}
		} else {
			var res *ocppj.CallResult
			res, cerr = a.CreateCallResult(v.Interface().(ocpp.Response), "q1")
			if cerr == nil {
				out, cerr = res.MarshalJSON()
			}
		}
		if cerr != nil {
			send = "err"
		} else {
			send = "ok"
			w, _ := parseNumTree(out).([]interface{})
			if len(w) >= 3 {
				var sb strings.Builder
				tokensOf(w[len(w)-1], &sb)
				re = fnvHex(sb.String())
				var ob strings.Builder
				tokensOf(payloadTree, &ob)
				stable = map[bool]string{true: "1", false: "0"}[sb.String() == ob.String()]
				// shape
				okShape := (dir == "req" && len(w) == 4 && w[0] == json.Number("2") && w[1] == "q1" && w[2] == feature) || (dir == "resp" && len(w) == 3 && w[0] == json.Number("3") && w[1] == "q1")
				if !okShape {
					rt = "shape"
				}
			}
			// second endpoint: parse what the first serialised, serialise again
			if rt == "-" {
				arr2, err := ocppj.ParseRawJsonMessage(out)
				rt = "0"
				if err == nil {
					if m2, err := b.ParseMessage(arr2, st); err == nil && m2 != nil {
						if out2, err := m2.MarshalJSON(); err == nil && bytes.Equal(out2, out) {
							rt = "1"
						}
					}
				}
			}
		}
	}
	if os.Getenv("CODEC_DEBUG") != "" && err != nil {
		return fmt.Sprintf("recv=%s send=%s re=%s rt=%s stable=%s ERR=%v PAYLOAD=%s", recv, send, re, rt, stable, err, payload)
	}
	return fmt.Sprintf("recv=%s send=%s re=%s rt=%s stable=%s", recv, send, re, rt, stable)
}

// treeFromTokens is the inverse of tokensOf
func treeFromTokens(toks []string) (interface{}, error) {
	pos := 0
	var rd func() (interface{}, error)
	rd = func() (interface{}, error) {
		if pos >= len(toks) {
			return nil, fmt.Errorf("eof")
		}
		t := toks[pos]
		pos++
		switch t[0] {
		case 'Z':
			return nil, nil
		case 'T':
			return true, nil
		case 'F':
			return false, nil
		case 'N':
			txt := t[strings.Index(t, ":")+1:]
			return json.Number(txt), nil
		case 'S':
			b, err := hexDecode(t[1:])
			return string(b), err
		case 'A':
			n, _ := strconv.Atoi(t[1:])
			arr := []interface{}{}
			for i := 0; i < n; i++ {
				v, err := rd()
				if err != nil {
					return nil, err
				}
				arr = append(arr, v)
			}
			return arr, nil
		case 'O':
			n, _ := strconv.Atoi(t[1:])
			o := map[string]interface{}{}
			for i := 0; i < n; i++ {
				if pos >= len(toks) {
					return nil, fmt.Errorf("eof")
				}
				kb, err := hexDecode(toks[pos][1:])
				pos++
				if err != nil {
					return nil, err
				}
				v, err := rd()
				if err != nil {
					return nil, err
				}
				o[string(kb)] = v
			}
			return o, nil
		}
		return nil, fmt.Errorf("bad token %q", t)
	}
	return rd()
}

func hexDecode(s string) ([]byte, error) {
	out := make([]byte, len(s)/2)
	for i := 0; i+1 < len(s); i += 2 {
		v, err := strconv.ParseUint(s[i:i+2], 16, 8)
		if err != nil {
			return nil, err
		}
		out[i/2] = byte(v)
	}
	return out, nil
}
