package main

import (
	"fmt"
	"sync"
	"sync/atomic"
	"time"

	"github.com/lorenzodonini/ocpp-go/ocpp"
	core16 "github.com/lorenzodonini/ocpp-go/ocpp1.6/core"
	"github.com/lorenzodonini/ocpp-go/ocppj"
	"github.com/lorenzodonini/ocpp-go/ws"
)

// Monitor srv_inbound (C19 workload; also C11/C03): an ocppj server on the fake websocket server; 6 clients connect,
// send CALLs at once (their first frames arrive before the server ever addressed them), disconnect and come back, all
// concurrently, while the server also sends them requests. Every CALL must be answered once.

func init() {
	rounds["srv_inbound"] = func(seed int64, i int) roundResult {
		var res roundResult
		fs := newFakeServer()
		d := ocppj.NewDefaultServerDispatcher(ocppj.NewFIFOQueueMap(0))
		d.SetTimeout(200 * time.Millisecond)
		srv := ocppj.NewServer(fs, d, nil, core16.Profile)
		srv.SetDialect(ocpp.V16)
		var handled int64
		srv.SetRequestHandler(func(ch ws.Channel, r ocpp.Request, id, action string) {
			atomic.AddInt64(&handled, 1)
			_ = srv.SendResponse(ch.ID(), id, core16.NewHeartbeatConfirmation(nil))
		})
		srv.SetResponseHandler(func(ch ws.Channel, r ocpp.Response, id string) {})
		srv.SetErrorHandler(func(ch ws.Channel, e *ocpp.Error, det interface{}) {})
		srv.SetCanceledRequestHandler(func(c, id string, r ocpp.Request, e *ocpp.Error) {})
		go srv.Start(0, "/")
		waitRunning(d)
		var wg sync.WaitGroup
		var sent int64
		start := make(chan struct{})
		for c := 0; c < 6; c++ {
			wg.Add(1)
			go func(c int) {
				defer wg.Done()
				id := fmt.Sprintf("c%d", c)
				<-start
				for k := 0; k < 8; k++ {
					fs.connect(id)
					for m := 0; m < 4; m++ {
						_ = fs.deliver(id, []byte(fmt.Sprintf(`[2,"%s-%d-%d","Heartbeat",{}]`, id, k, m)))
						atomic.AddInt64(&sent, 1)
						if m == 1 {
							_ = srv.SendRequest(id, core16.NewClearCacheRequest())
						}
					}
					fs.disconnect(id)
				}
			}(c)
		}
		close(start)
		done := make(chan struct{})
		go func() { wg.Wait(); close(done) }()
		select {
		case <-done:
		case <-time.After(10 * time.Second):
			res.Violations = append(res.Violations, Violation{Property: "C07", Sig: "inbound-wedged", What: "srv_inbound: the clients' frames were not all handled within 20 s", Replay: blockedIn("ocppj")})
		}
		res.Events = int(atomic.LoadInt64(&handled))
		stopped := make(chan struct{})
		go func() {
			defer close(stopped)
			defer func() { _ = recover() }()
			srv.Stop()
		}()
		select {
		case <-stopped:
		case <-time.After(3 * time.Second):
		}
		return res
	}
	monitors["srv_inbound"] = func(seed int64, tier string) interface{} {
		n := 8
		if tier == "thorough" {
			n = 80
		}
		rep := &Report{Monitor: "srv_inbound", Rule: "rounds in their own process: 6 clients x 8 sessions x 4 CALLs against one ocppj server (fake websocket), all concurrently, with server-side requests in between; a workload for the race detector (first frames of a session, reconnects); distinct = rounds", Stats: map[string]interface{}{}}
		for _, r := range runRounds("srv_inbound", seed, n, 4) {
			rep.Evaluations++
			if r.Events > 0 {
				rep.Distinct++
			}
			for _, v := range r.Violations {
				rep.Violations = append(rep.Violations, v)
			}
		}
		return rep
	}
}
