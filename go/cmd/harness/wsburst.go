package main

import (
	"fmt"
	"math/rand"
	"net"
	"sync"
	"sync/atomic"
	"time"

	"github.com/gorilla/websocket"
	"github.com/lorenzodonini/ocpp-go/ws"
)

// Monitor ws_burst (C13, search on the implementation): concurrent bursts of connects on a small id space against
// one real ws.Server on loopback; every admitted raw client then closes at once / after a moment / drops TCP /
// writes then closes / is stopped by the server. Checked on the server's own callback log: per id the callbacks
// alternate new, disc, new, ... starting with new; at the end every new has its disc and nothing is reported
// connected; admitted connections = new callbacks; a refused duplicate sees close 1008 and the live one keeps echoing.

func init() {
	rounds["ws_burst"] = func(seed int64, i int) roundResult {
		var res roundResult
		var vmu sync.Mutex
		viol := func(sig, what string, replay interface{}) {
			vmu.Lock()
			defer vmu.Unlock()
			for _, v := range res.Violations {
				if v.Sig == sig {
					return
				}
			}
			res.Violations = append(res.Violations, Violation{Property: "C13", Sig: sig, What: what, Replay: replay})
		}
		c := startWsServer(srvOpts{})
		c.onMsg = func(ch ws.Channel, data []byte) { _ = c.s.Write(ch.ID(), data) }
		ids := []string{"a", "b"}
		var admitted, refused, other int64
		var wg sync.WaitGroup
		workers := 8
		for w := 0; w < workers; w++ {
			wg.Add(1)
			go func(w int) {
				defer wg.Done()
				r := rand.New(rand.NewSource(seed*1000003 + int64(i)*131 + int64(w)))
				for it := 0; it < 14; it++ {
					id := ids[r.Intn(len(ids))]
					d := rawDial(c.url(id), []string{"ocpp1.6"}, nil)
					if d.err != nil {
						atomic.AddInt64(&other, 1)
						continue
					}
					tag := fmt.Sprintf("w%d-%d", w, it)
					act := r.Intn(6)
					if act == 0 {
						// close at once, before knowing the verdict
						_ = d.conn.WriteControl(websocket.CloseMessage, websocket.FormatCloseMessage(websocket.CloseNormalClosure, ""), time.Now().Add(time.Second))
						st := readClose(d.conn, 500*time.Millisecond)
						_ = d.conn.Close()
						if st == "close:1008" {
							atomic.AddInt64(&refused, 1)
						} else {
							atomic.AddInt64(&admitted, 1)
						}
						continue
					}
					_ = d.conn.WriteMessage(websocket.TextMessage, []byte(tag))
					_ = d.conn.SetReadDeadline(time.Now().Add(2 * time.Second))
					_, data, err := d.conn.ReadMessage()
					if err != nil {
						if ce, ok := err.(*websocket.CloseError); ok && ce.Code == websocket.ClosePolicyViolation {
							atomic.AddInt64(&refused, 1)
						} else {
							atomic.AddInt64(&other, 1)
							viol("handshake-lost", fmt.Sprintf("a connection that was neither refused (1008) nor served: %v", err), map[string]interface{}{"round": i, "seed": seed, "tag": tag})
						}
						_ = d.conn.Close()
						continue
					}
					if string(data) != tag {
						viol("echo-mismatch", fmt.Sprintf("client %s received %q: another connection's traffic", tag, string(data)), map[string]interface{}{"round": i, "seed": seed})
					}
					atomic.AddInt64(&admitted, 1)
					switch act {
					case 1:
						time.Sleep(time.Duration(r.Intn(2000)) * time.Microsecond)
						_ = d.conn.WriteControl(websocket.CloseMessage, websocket.FormatCloseMessage(websocket.CloseNormalClosure, ""), time.Now().Add(time.Second))
						readClose(d.conn, 500*time.Millisecond)
						_ = d.conn.Close()
					case 2:
						if tc, ok := d.conn.UnderlyingConn().(*net.TCPConn); ok {
							_ = tc.SetLinger(0)
						}
						_ = d.conn.Close()
					case 3:
						_ = c.s.StopConnection(id, websocket.CloseError{Code: websocket.CloseNormalClosure, Text: ""})
						readClose(d.conn, time.Second)
						_ = d.conn.Close()
					default:
						_ = d.conn.Close() // TCP FIN without a close frame
					}
					// wait until the server has let go of the id now and then, so that not everything is a duplicate
					if r.Intn(2) == 0 {
						waitCond(300*time.Millisecond, func() bool { _, ok := c.s.GetChannel(id); return !ok })
					}
				}
			}(w)
		}
		wg.Wait()
		waitCond(3*time.Second, func() bool {
			for _, id := range ids {
				if _, ok := c.s.GetChannel(id); ok {
					return false
				}
			}
			return true
		})
		c.settle(20*time.Millisecond, 500*time.Millisecond)
		log := c.take()
		res.Events = len(log)
		// per connection (= per Channel object): 0 nothing yet, 1 new seen, 2 disc seen
		state := map[string]int{}
		news := 0
		var trace []string
		for _, e := range log {
			if e.kind == "msg" {
				continue
			}
			trace = append(trace, e.kind+":"+e.id+"@"+e.ch)
		}
		for j, e := range log {
			switch e.kind {
			case "new":
				news++
				if state[e.ch] == 1 {
					viol("new-twice", fmt.Sprintf("two new-client callbacks for one connection (id %s, callback #%d)", e.id, j), map[string]interface{}{"round": i, "seed": seed, "callbacks": trace})
				}
				if state[e.ch] == 2 {
					viol("disc-before-new", fmt.Sprintf("the disconnected callback of a connection (id %s) fired before its new-client callback (callback #%d)", e.id, j), map[string]interface{}{"round": i, "seed": seed, "callbacks": trace})
					continue
				}
				state[e.ch] = 1
			case "disc":
				if state[e.ch] == 2 {
					viol("disc-twice", fmt.Sprintf("two disconnected callbacks for one connection (id %s, callback #%d)", e.id, j), map[string]interface{}{"round": i, "seed": seed, "callbacks": trace})
				}
				if state[e.ch] == 0 {
					// may still be followed by its new: reported above when it comes; if it never comes, below
					state[e.ch] = 2
					continue
				}
				state[e.ch] = 2
			case "msg":
				if state[e.ch] == 2 {
					viol("msg-after-disc", fmt.Sprintf("message callback for a connection (id %s) after its disconnected callback", e.id), map[string]interface{}{"round": i, "seed": seed})
				}
			}
		}
		// per id (since /repo 3413323): the end of a connection is reported before the next connection of the id is announced
		openID := map[string]string{}
		for j, e := range log {
			switch e.kind {
			case "new":
				if prev, ok := openID[e.id]; ok && prev != e.ch {
					viol("id-new-before-disc", fmt.Sprintf("id %s: connection %s was announced (callback #%d) before the end of connection %s of the same id was reported", e.id, e.ch, j, prev), map[string]interface{}{"round": i, "seed": seed, "callbacks": trace})
				}
				openID[e.id] = e.ch
			case "disc":
				if openID[e.id] == e.ch {
					delete(openID, e.id)
				}
			}
		}
		for ch, st := range state {
			if st == 1 {
				viol("disc-missing", fmt.Sprintf("connection %s: a new-client callback without its disconnected callback after every client has gone", ch), map[string]interface{}{"round": i, "seed": seed, "callbacks": trace})
			}
		}
		for _, id := range ids {
			if _, ok := c.s.GetChannel(id); ok {
				viol("reported-not-live", fmt.Sprintf("id %s still reported as connected after every client has gone", id), map[string]interface{}{"round": i, "seed": seed})
			}
		}
		if int64(news) != admitted {
			viol("admitted-vs-new", fmt.Sprintf("%d connections were served but %d new-client callbacks fired (refused %d)", admitted, news, refused), map[string]interface{}{"round": i, "seed": seed, "callbacks": trace})
		}
		// directed scenarios: the server's read pump is held inside the message handler while the client goes away
		// and/or the server stops the connection
		gate := make(chan struct{})
		var held int32
		c.onMsg = func(ch ws.Channel, data []byte) {
			if string(data) == "hold" {
				atomic.StoreInt32(&held, 1)
				<-gate
			}
		}
		for _, ca := range []string{"rst", "fin", "closeframe", "none"} {
			for _, sa := range []string{"stopconn", "write-stopconn", "none"} {
				id := "d-" + ca + "-" + sa
				gate = make(chan struct{})
				atomic.StoreInt32(&held, 0)
				c.take()
				d := rawDial(c.url(id), []string{"ocpp1.6"}, nil)
				if d.err != nil {
					viol("directed-dial:"+ca+":"+sa, fmt.Sprintf("directed scenario %s/%s: id %s cannot connect although nothing with that id is live: %v", ca, sa, id, d.err), map[string]interface{}{"client": ca, "server": sa})
					continue
				}
				rc := newRawClient(d.conn)
				_ = d.conn.WriteMessage(websocket.TextMessage, []byte("hold"))
				if !waitCond(2*time.Second, func() bool { return atomic.LoadInt32(&held) == 1 }) {
					cl, _ := rc.state()
					viol("directed-refused:"+ca+":"+sa, fmt.Sprintf("directed scenario %s/%s: a fresh connection for id %s is not served (%s): an earlier connection of that id was never released", ca, sa, id, cl), map[string]interface{}{"client": ca, "server": sa})
					_ = d.conn.Close()
					close(gate)
					continue
				}
				switch ca {
				case "rst":
					if tc, ok := d.conn.UnderlyingConn().(*net.TCPConn); ok {
						_ = tc.SetLinger(0)
					}
					_ = d.conn.Close()
				case "fin":
					_ = d.conn.Close()
				case "closeframe":
					_ = d.conn.WriteControl(websocket.CloseMessage, websocket.FormatCloseMessage(websocket.CloseNormalClosure, ""), time.Now().Add(time.Second))
				}
				time.Sleep(3 * time.Millisecond)
				switch sa {
				case "stopconn":
					_ = c.s.StopConnection(id, websocket.CloseError{Code: websocket.CloseNormalClosure, Text: ""})
				case "write-stopconn":
					_ = c.s.Write(id, []byte("x"))
					_ = c.s.StopConnection(id, websocket.CloseError{Code: websocket.CloseNormalClosure, Text: ""})
				}
				time.Sleep(3 * time.Millisecond)
				close(gate)
				ended := ca != "none" || sa != "none"
				if !ended {
					_ = d.conn.Close()
				}
				okEnd := waitCond(3*time.Second, func() bool {
					n := 0
					for _, e := range c.snapshot() {
						if e.kind == "disc" && e.id == id {
							n++
						}
					}
					_, live := c.s.GetChannel(id)
					return n >= 1 && !live
				})
				c.settle(5*time.Millisecond, 100*time.Millisecond)
				nd, nn := 0, 0
				for _, e := range c.take() {
					if e.kind == "disc" && e.id == id {
						nd++
					}
					if e.kind == "new" && e.id == id {
						nn++
					}
				}
				res.Events += nd + nn
				_, live := c.s.GetChannel(id)
				if !okEnd || nd != 1 || nn != 1 || live {
					viol("directed-lifecycle:"+ca+":"+sa, fmt.Sprintf("read pump held in the message handler, client %s, server %s, handler released: new-client callbacks %d, disconnected callbacks %d, id still reported connected: %v (want 1, 1, false)", ca, sa, nn, nd, live),
						map[string]interface{}{"client": ca, "server": sa, "steps": "connect d; client sends `hold` (message handler blocks); client: " + ca + "; server: " + sa + "; release the handler; wait"})
				}
				_ = d.conn.Close()
			}
		}
		done := make(chan struct{})
		go func() { c.s.Stop(); close(done) }()
		select {
		case <-done:
		case <-time.After(5 * time.Second):
			viol("stop-wedged", "ws server Stop does not return after the burst", map[string]interface{}{"round": i, "seed": seed})
		}
		return res
	}
	monitors["ws_burst"] = func(seed int64, tier string) interface{} {
		n := 24
		if tier == "thorough" {
			n = 300
		}
		rep := &Report{Monitor: "ws_burst", Rule: "per round (own process): 8 concurrent raw gorilla clients x 14 connects on 2 ids against one real ws.Server on loopback; admitted clients close at once / after 0-2 ms / reset TCP / FIN / are stopped by the server; checked on the server's callback log: per id new and disconnected alternate starting with new, every new has its disconnected at the end, served connections = new callbacks, nothing reported connected at the end, echo goes to the right connection, Stop returns; distinct = rounds with more than 40 callbacks", Stats: map[string]interface{}{}}
		results := runRounds("ws_burst", seed, n, 8)
		seen := map[string]bool{}
		for _, r := range results {
			rep.Stats["callbacks"] = asInt(rep.Stats["callbacks"]) + r.Events
			if r.Events > 40 {
				rep.Distinct++
			}
			rep.Evaluations++
			for _, v := range r.Violations {
				if !seen[v.Sig] {
					seen[v.Sig] = true
					rep.Violations = append(rep.Violations, v)
				}
			}
		}
		return rep
	}
}
