package main

import (
	"fmt"
	"strings"
	"sync"
	"time"

	"github.com/lorenzodonini/ocpp-go/ocpp"
	"github.com/lorenzodonini/ocpp-go/ocppj"
)

// c01_overtake: the known window S4/S5 — a reply whose handler runs after CompleteRequest while the pump already
// cancels the next request (failing write): the cancellation can overtake the response and both are delivered to
// each other's callbacks. Repeated until it shows (it is a race; typically a few per thousand).
func init() {
	// c01_outcome_order (S4): charge point / charging station. The application's callback of q1 is slow, so the goroutine that
	// hands outcomes to callbacks is busy while q2's response and then q3's write failure are reported: both are waiting
	// when it returns and must be handed over in the order they were reported (q2's callback gets the response).
	monitors["c01_outcome_order"] = func(seed int64, tier string) interface{} {
		rep := &Report{Monitor: "c01_outcome_order", Rule: "per iteration: charge point / charging station, four async DataTransfer requests; q1 is answered and its callback sleeps 30 ms; meanwhile writes start failing and q2 is answered (response reported, then the write failures of q3 and q4); callbacks tagged with their request id; a delivery to another request's callback is a violation; distinct = iterations in which all four callbacks fired"}
		n := 24
		if tier == "thorough" {
			n = 120
		}
		for it := 0; it < n; it++ {
			ver := []string{"R16", "R201"}[it%2]
			e := newEndpoint(ver, "cp", epOpts{timeout: 2 * time.Second})
			var mu sync.Mutex
			var log []string
			var wg sync.WaitGroup
			next := ""
			ocppj.SetMessageIdGenerator(func() string { return next })
			for i := 1; i <= 4; i++ {
				id := fmt.Sprintf("q%d", i)
				next = id
				wg.Add(1)
				err := e.sendAsync("A", dataTransferReq(ver), func(r ocpp.Response, err error) {
					defer wg.Done()
					got := "resp"
					if err != nil {
						got = "err"
						if oe, ok := err.(*ocpp.Error); ok {
							got = "err:" + oe.MessageId
						}
					}
					mu.Lock()
					log = append(log, id+"<-"+got)
					mu.Unlock()
					if id == "q1" {
						time.Sleep(30 * time.Millisecond)
					}
				})
				if err != nil {
					wg.Done()
				}
			}
			e.waitWrites(1, 200*time.Millisecond)
			_ = e.deliver("A", []byte(`[3,"q1",{"status":"Accepted"}]`))
			e.waitWrites(1, 200*time.Millisecond) // q2 written
			e.fc.setWriteErr(fmt.Errorf("injected"))
			_ = e.deliver("A", []byte(`[3,"q2",{"status":"Accepted"}]`))
			done := make(chan struct{})
			go func() { wg.Wait(); close(done) }()
			select {
			case <-done:
				rep.Distinct++
			case <-time.After(800 * time.Millisecond):
			}
			rep.Evaluations++
			mu.Lock()
			want := map[string]string{"q1": "resp", "q2": "resp", "q3": "err:q3", "q4": "err:q4"}
			for _, l := range log {
				p := strings.Split(l, "<-")
				if want[p[0]] != p[1] {
					sig := "outcome-order:client"
					dup := false
					for _, v := range rep.Violations {
						dup = dup || v.Sig == sig
					}
					if !dup {
						rep.Violations = append(rep.Violations, Violation{Property: "C01", Sig: sig, What: fmt.Sprintf("%s charge point: deliveries %v: an outcome was delivered to the callback of another request (q2's response and q3's write failure were both waiting while q1's callback ran, and were handed over in the wrong order)", ver, log), Replay: map[string]interface{}{"version": ver, "iteration": it, "deliveries": log}})
					}
				}
			}
			mu.Unlock()
			func() {
				defer func() { _ = recover() }()
				e.stop()
			}()
		}
		return rep
	}
	// c01_handler_order (S5): the ocppj reader is slow between completing a request and invoking its response handler
	// (injected dispatcher whose CompleteRequest returns 20 ms late); the pump dispatches the next requests meanwhile, their
	// writes fail and are reported: every callback must still receive its own request's outcome. All four endpoint kinds.
	monitors["c01_handler_order"] = func(seed int64, tier string) interface{} {
		rep := &Report{Monitor: "c01_handler_order", Rule: "per iteration: three async DataTransfer requests (one written, two queued), writes start failing, the reply to the first arrives and the reader is held 20 ms between CompleteRequest and the response handler (injected dispatcher wrapper); callbacks tagged with their request id; a delivery to another request's callback is a violation; all four endpoint kinds; distinct = iterations in which all three callbacks fired"}
		n := 16
		if tier == "thorough" {
			n = 80
		}
		for it := 0; it < n; it++ {
			ver := []string{"R16", "R201"}[it%2]
			role := []string{"cp", "cs"}[(it/2)%2]
			e := newEndpoint(ver, role, epOpts{timeout: 2 * time.Second, slowComplete: 20 * time.Millisecond})
			if role == "cs" {
				e.fs.connect("A")
			}
			var mu sync.Mutex
			var log []string
			var wg sync.WaitGroup
			next := ""
			ocppj.SetMessageIdGenerator(func() string { return next })
			for i := 1; i <= 3; i++ {
				id := fmt.Sprintf("q%d", i)
				next = id
				wg.Add(1)
				err := e.sendAsync("A", dataTransferReq(ver), func(r ocpp.Response, err error) {
					defer wg.Done()
					got := "resp:q1"
					if err != nil {
						got = "err"
						if oe, ok := err.(*ocpp.Error); ok {
							got = "err:" + oe.MessageId
						}
					}
					mu.Lock()
					log = append(log, id+"<-"+got)
					mu.Unlock()
				})
				if err != nil {
					wg.Done()
				}
			}
			e.waitWrites(1, 200*time.Millisecond)
			if role == "cs" {
				e.fs.setWriteErr("A", fmt.Errorf("injected"))
			} else {
				e.fc.setWriteErr(fmt.Errorf("injected"))
			}
			_ = e.deliver("A", []byte(`[3,"q1",{"status":"Accepted"}]`))
			done := make(chan struct{})
			go func() { wg.Wait(); close(done) }()
			select {
			case <-done:
				rep.Distinct++
			case <-time.After(800 * time.Millisecond):
			}
			rep.Evaluations++
			mu.Lock()
			for _, l := range log {
				p := strings.Split(l, "<-")
				if !strings.HasSuffix(p[1], ":"+p[0]) {
					sig := "handler-order:" + map[string]string{"cp": "client", "cs": "server"}[role]
					dup := false
					for _, v := range rep.Violations {
						dup = dup || v.Sig == sig
					}
					if !dup {
						rep.Violations = append(rep.Violations, Violation{Property: "C01", Sig: sig, What: fmt.Sprintf("%s %s: deliveries %v: a conclusion was delivered to the callback of another request (the reader was held between CompleteRequest and the response handler; the failing write of the next request was reported first)", ver, role, log), Replay: map[string]interface{}{"version": ver, "role": role, "iteration": it, "deliveries": log}})
					}
				}
			}
			mu.Unlock()
			func() {
				defer func() { _ = recover() }()
				e.stop()
			}()
		}
		return rep
	}
	monitors["c01_overtake"] = func(seed int64, tier string) interface{} {
		rep := &Report{Monitor: "c01_overtake", Rule: "per iteration: three async DataTransfer requests (one written, two queued), writes start failing, the reply to the first arrives; callbacks tagged with their request id; a delivery to another request's callback is a violation; all four endpoint kinds; distinct = iterations in which all three callbacks fired"}
		n := 400
		if tier == "thorough" {
			n = 4000
		}
		for it := 0; it < n; it++ {
			ver := []string{"R16", "R201"}[it%2]
			role := []string{"cp", "cs"}[(it/2)%2]
			e := newEndpoint(ver, role, epOpts{timeout: 2 * time.Second})
			if role == "cs" {
				e.fs.connect("A")
			}
			var mu sync.Mutex
			var log []string
			var wg sync.WaitGroup
			next := ""
			ocppj.SetMessageIdGenerator(func() string { return next })
			for i := 1; i <= 3; i++ {
				id := fmt.Sprintf("q%d", i)
				next = id
				wg.Add(1)
				err := e.sendAsync("A", dataTransferReq(ver), func(r ocpp.Response, err error) {
					defer wg.Done()
					got := "resp:q1"
					if err != nil {
						if oe, ok := err.(*ocpp.Error); ok {
							got = "err:" + oe.MessageId
						}
					}
					mu.Lock()
					log = append(log, id+"<-"+got)
					mu.Unlock()
				})
				if err != nil {
					wg.Done()
				}
			}
			e.waitWrites(1, 200*time.Millisecond)
			if role == "cs" {
				e.fs.setWriteErr("A", fmt.Errorf("injected"))
			} else {
				e.fc.setWriteErr(fmt.Errorf("injected"))
			}
			_ = e.deliver("A", []byte(`[3,"q1",{"status":"Accepted"}]`))
			done := make(chan struct{})
			go func() { wg.Wait(); close(done) }()
			select {
			case <-done:
				rep.Distinct++
			case <-time.After(500 * time.Millisecond):
			}
			rep.Evaluations++
			mu.Lock()
			for _, l := range log {
				p := strings.Split(l, "<-")
				if !strings.HasSuffix(p[1], ":"+p[0]) {
					sig := "overtake:" + map[string]string{"cp": "client", "cs": "server"}[role]
					dup := false
					for _, v := range rep.Violations {
						dup = dup || v.Sig == sig
					}
					if !dup {
						rep.Violations = append(rep.Violations, Violation{Property: "C01", Sig: sig, What: fmt.Sprintf("%s %s: deliveries %v: a conclusion was delivered to the callback of another request (the failing write of the next request overtook the response)", ver, role, log), Replay: map[string]interface{}{"version": ver, "role": role, "iteration": it, "deliveries": log}})
					}
				}
			}
			if len(rep.Samples) < 2 && len(log) == 3 {
				rep.Samples = append(rep.Samples, append([]string{ver + "/" + role}, log...))
			}
			mu.Unlock()
			func() {
				defer func() { _ = recover() }()
				e.stop()
			}()
		}
		return rep
	}
}
