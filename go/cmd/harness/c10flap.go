package main

import (
	"fmt"
	"net"
	"sync"
	"time"

	"github.com/gorilla/websocket"
	"github.com/lorenzodonini/ocpp-go/ocpp"
	"github.com/lorenzodonini/ocpp-go/ocpp1.6/core"
	"github.com/lorenzodonini/ocpp-go/ocppj"
	"github.com/lorenzodonini/ocpp-go/ws"
)

// Monitor c10_flap (C10, directed, on the implementation): an ocppj.Client on the REAL ws.Client against a raw gorilla
// server on loopback. The connection is lost, the client reconnects, and the application's reconnected handler is slow
// (held at a gate); while it runs the new connection is lost too. Whatever the order in which the library learns of
// the two events, once the handler has returned and everything is quiet the link is down, so the dispatcher must be
// paused: a request sent now is retained (not written, not cancelled) and goes out after the next reconnection.
// On the pinned tree the disconnected notification of the new connection could overtake the end of the reconnected
// notification: ocppj.Client paused first and resumed afterwards, and the request was written into the dead link and
// cancelled with an internal error.

func init() {
	roundsProp["c10_flap"] = "C10"
	rounds["c10_flap"] = func(seed int64, i int) roundResult {
		var res roundResult
		viol := func(sig, what string, replay interface{}) {
			for _, v := range res.Violations {
				if v.Sig == sig {
					return
				}
			}
			res.Violations = append(res.Violations, Violation{Property: "C10", Sig: sig, What: what, Replay: replay})
		}
		how := []string{"reset", "close1011", "fin"}[i%3]
		steps := "ocppj.Client on the real ws.Client, raw gorilla server; server drops the connection (" + how + "); client reconnects; the reconnected handler is held at a gate; server drops the new connection; gate released; the server stops accepting; SendRequest; later the server accepts again"
		srv := &rawServer{muted: map[*websocket.Conn]bool{}}
		if err := srv.up(); err != nil {
			fmt.Println("HARNESS-ERROR c10_flap: listen", err)
			return res
		}
		defer srv.down()
		url := fmt.Sprintf("ws://127.0.0.1:%d/cp1", srv.port)
		cl := ws.NewClient()
		cl.SetRequestedSubProtocol("ocpp1.6")
		cfg := ws.NewClientTimeoutConfig()
		cfg.RetryBackOffWaitMinimum = 30 * time.Millisecond
		cfg.RetryBackOffRandomRange = 0
		cfg.RetryBackOffRepeatTimes = 2
		cfg.HandshakeTimeout = time.Second
		cfg.PingPeriod, cfg.PongWait = 0, 0
		cl.SetTimeoutConfig(cfg)
		q := ocppj.NewFIFOClientQueue(0)
		d := ocppj.NewDefaultClientDispatcher(q)
		d.SetTimeout(10 * time.Second)
		c := ocppj.NewClient("cp1", cl, d, nil, core.Profile)
		c.SetDialect(ocpp.V16)
		var mu sync.Mutex
		var log []string
		add := func(s string) { mu.Lock(); log = append(log, s); mu.Unlock() }
		snapshot := func() []string { mu.Lock(); defer mu.Unlock(); return append([]string{}, log...) }
		count := func(s string) int {
			n := 0
			for _, l := range snapshot() {
				if l == s {
					n++
				}
			}
			return n
		}
		gate := make(chan struct{})
		entered := make(chan struct{}, 4)
		first := true
		c.SetOnDisconnectedHandler(func(err error) { add("disc") })
		c.SetOnReconnectedHandler(func() {
			add("rec-begin")
			if first {
				first = false
				entered <- struct{}{}
				<-gate
			}
			add("rec-end")
		})
		c.SetRequestHandler(func(r ocpp.Request, id, action string) {})
		c.SetResponseHandler(func(r ocpp.Response, id string) { add("resp") })
		c.SetErrorHandler(func(e *ocpp.Error, det interface{}) { add("err") })
		c.SetOnRequestCanceled(func(id string, r ocpp.Request, e *ocpp.Error) { add("cancel:" + string(e.Code)) })
		go func() {
			for range cl.Errors() {
			}
		}()
		if err := c.Start(url); err != nil {
			fmt.Println("HARNESS-ERROR c10_flap: start", err)
			return res
		}
		defer func() {
			defer func() { _ = recover() }()
			c.Stop()
		}()
		drop := func() {
			conn := srv.last()
			if conn == nil {
				return
			}
			switch how {
			case "reset":
				if tc, ok := conn.UnderlyingConn().(*net.TCPConn); ok {
					_ = tc.SetLinger(0)
				}
				_ = conn.Close()
			case "close1011":
				_ = conn.WriteControl(websocket.CloseMessage, websocket.FormatCloseMessage(websocket.CloseInternalServerErr, "bye"), time.Now().Add(time.Second))
				time.Sleep(2 * time.Millisecond)
				_ = conn.Close()
			default:
				_ = conn.Close()
			}
		}
		waitCond(time.Second, func() bool { return srv.raw() >= 1 })
		drop()
		select {
		case <-entered:
		case <-time.After(3 * time.Second):
			fmt.Println("HARNESS-ERROR c10_flap: no reconnection")
			close(gate)
			return res
		}
		// the reconnected handler is running; the new connection is lost as well, and nothing can connect for now
		waitCond(time.Second, func() bool { return srv.raw() >= 2 })
		srv.down()
		drop()
		time.Sleep(40 * time.Millisecond)
		duringGate := snapshot()
		close(gate)
		waitCond(time.Second, func() bool { return count("rec-end") >= 1 && count("disc") >= 2 })
		time.Sleep(20 * time.Millisecond)
		res.Events = len(snapshot())
		// per link the notifications alternate: the end of the second connection is not reported before its announcement finished
		l := snapshot()
		idxEnd, idxDisc2 := -1, -1
		nd := 0
		for k, x := range l {
			if x == "rec-end" && idxEnd < 0 {
				idxEnd = k
			}
			if x == "disc" {
				nd++
				if nd == 2 {
					idxDisc2 = k
				}
			}
		}
		if idxDisc2 >= 0 && idxEnd >= 0 && idxDisc2 < idxEnd {
			viol("flap/disc-overtakes-reconnected", fmt.Sprintf("the loss of the new connection was reported while its reconnected notification was still running: %v (during the held handler: %v)", l, duringGate),
				map[string]interface{}{"how": how, "steps": steps, "callbacks": l})
		}
		// the link is down: a request sent now is retained
		if !d.IsPaused() {
			viol("flap/unpaused-while-down", fmt.Sprintf("the link is down (connected=%v) but the dispatcher is not paused after the notifications %v", cl.IsConnected(), l),
				map[string]interface{}{"how": how, "steps": steps, "callbacks": l})
		}
		n0 := srv.raw()
		_ = n0
		if err := c.SendRequest(core.NewHeartbeatRequest()); err != nil {
			viol("flap/send-rejected", fmt.Sprintf("a request sent while the link is down was rejected: %v", err), map[string]interface{}{"how": how, "steps": steps})
			return res
		}
		time.Sleep(40 * time.Millisecond)
		for _, x := range snapshot() {
			if len(x) > 7 && x[:7] == "cancel:" {
				viol("flap/offline-request-cancelled", fmt.Sprintf("a request sent while the link was down was not retained but cancelled (%s); notifications %v", x, snapshot()),
					map[string]interface{}{"how": how, "steps": steps, "callbacks": snapshot()})
			}
		}
		// the server comes back: the retained request goes out
		if err := srv.up(); err != nil {
			return res
		}
		got := make(chan string, 1)
		go func() {
			deadline := time.Now().Add(3 * time.Second)
			for time.Now().Before(deadline) {
				if conn := srv.last(); conn != nil && srv.raw() > n0 {
					srv.mu.Lock()
					msgs := append([]string{}, srv.msgs...)
					srv.mu.Unlock()
					for _, m := range msgs {
						if fr, err := parseFrame([]byte(m)); err == nil && fr.Type == 2 {
							got <- fr.ID
							return
						}
					}
				}
				time.Sleep(2 * time.Millisecond)
			}
			got <- ""
		}()
		if id := <-got; id == "" {
			hasCancel := false
			for _, x := range snapshot() {
				if len(x) > 7 && x[:7] == "cancel:" {
					hasCancel = true
				}
			}
			if !hasCancel {
				viol("flap/offline-request-not-sent", fmt.Sprintf("a request retained while the link was down was not written within 3 s after the server came back; notifications %v", snapshot()),
					map[string]interface{}{"how": how, "steps": steps, "callbacks": snapshot()})
			}
		}
		return res
	}
	monitors["c10_flap"] = func(seed int64, tier string) interface{} {
		n := 6
		if tier == "thorough" {
			n = 45
		}
		rep := &Report{Monitor: "c10_flap", Rule: "rounds in their own process: ocppj.Client on the real ws.Client against a raw gorilla server; connection lost (reset / close 1011 / FIN), reconnection, the application's reconnected handler held at a gate while the new connection is lost too; afterwards: the second loss is not reported before the reconnected notification ended, the dispatcher is paused while the link is down, a request sent now is retained (not cancelled) and written after the server comes back; distinct = rounds", Stats: map[string]interface{}{}}
		results := runRounds("c10_flap", seed, n, 6)
		seen := map[string]bool{}
		for _, r := range results {
			rep.Evaluations++
			if r.Events >= 4 {
				rep.Distinct++
			}
			for _, v := range r.Violations {
				if !seen[v.Sig] {
					seen[v.Sig] = true
					rep.Violations = append(rep.Violations, v)
				}
			}
		}
		return rep
	}
}
