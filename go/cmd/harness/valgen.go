package main

import (
	"encoding/json"
	"fmt"
	"math/rand"
	"os"
	"path/filepath"
	"reflect"
	"strconv"
	"strings"
	"time"

	"github.com/lorenzodonini/ocpp-go/ocppj"
)

// Type-directed generator of payload values (H2): mostly-valid values built from the validate tags of the
// repo's own types, plus single-constraint mutations. Enumeration values come from gen/registry.json (T1).

type registryFile struct {
	Versions map[string]struct {
		Features []struct {
			Name, Profile, Pkg string
			ReqType            string `json:"req_type"`
			RespType           string `json:"resp_type"`
		} `json:"features"`
		Roles map[string]struct {
			Send []string `json:"send"`
		} `json:"roles"`
		Enums []struct {
			Tag      string   `json:"tag"`
			Accepted []string `json:"accepted"`
			Exported []string `json:"exported"`
			ExpNames []string `json:"exported_names"`
			Type     string   `json:"type"`
			Pkg      string   `json:"pkg"`
		} `json:"enums"`
	} `json:"versions"`
}

var registry *registryFile
var enumByTag = map[string][]string{}

func verifRoot() string {
	if r := os.Getenv("VERIF_ROOT"); r != "" {
		return r
	}
	exe, err := os.Executable()
	if err == nil {
		return filepath.Dir(filepath.Dir(exe))
	}
	return "/verif"
}

func loadRegistry() *registryFile {
	if registry != nil {
		return registry
	}
	registry = &registryFile{}
	b, err := os.ReadFile(filepath.Join(verifRoot(), "gen", "registry.json"))
	if err == nil {
		_ = json.Unmarshal(b, registry)
	}
	for _, v := range registry.Versions {
		for _, e := range v.Enums {
			enumByTag[e.Tag] = e.Accepted
		}
	}
	return registry
}

type tagPart struct {
	name  string
	param string
}

func parseTags(tag string) []tagPart {
	var r []tagPart
	if tag == "" {
		return r
	}
	for _, p := range strings.Split(tag, ",") {
		n, v := p, ""
		if i := strings.Index(p, "="); i >= 0 {
			n, v = p[:i], p[i+1:]
		}
		r = append(r, tagPart{n, v})
	}
	return r
}

type gen struct {
	r *rand.Rand
	// full: set every optional field; min: only required ones; otherwise random
	mode string
}

func (g *gen) optional() bool {
	switch g.mode {
	case "full":
		return true
	case "min":
		return false
	}
	return g.r.Intn(2) == 0
}

var letters = []string{"a", "B", "z", "0", "9", "-", "_", "é", "ß", "<", ">", "&", "'", " ", "日", "😀", " ", "/", "\\", "\""}

func (g *gen) str(minLen, maxLen int) string {
	if maxLen < 0 {
		maxLen = minLen + 12
	}
	if maxLen < minLen {
		maxLen = minLen
	}
	n := minLen
	if maxLen > minLen {
		switch g.r.Intn(4) {
		case 0:
			n = maxLen // boundary
		case 1:
			n = minLen
		default:
			n = minLen + g.r.Intn(maxLen-minLen+1)
		}
	}
	if n > 600 {
		n = 600
	}
	var sb strings.Builder
	cnt := 0
	for cnt < n {
		var s string
		if g.r.Intn(6) == 0 {
			s = letters[g.r.Intn(len(letters))]
		} else {
			s = string(rune('a' + g.r.Intn(26)))
		}
		// validator's max counts runes
		sb.WriteString(s)
		cnt += len([]rune(s))
	}
	rs := []rune(sb.String())
	if len(rs) > n {
		rs = rs[:n]
	}
	return string(rs)
}

func atoiDef(s string, d int) int {
	if v, err := strconv.Atoi(s); err == nil {
		return v
	}
	if f, err := strconv.ParseFloat(s, 64); err == nil {
		return int(f)
	}
	return d
}

// fill sets v (addressable) to a value intended to satisfy `tags`.
func (g *gen) fill(v reflect.Value, tags []tagPart, depth int) {
	required := false
	omitempty := false
	for _, t := range tags {
		if t.name == "required" {
			required = true
		}
		if t.name == "omitempty" {
			omitempty = true
		}
		if t.name == "dive" {
			break
		}
	}
	_ = omitempty
	t := v.Type()
	if t.Kind() == reflect.Ptr {
		if !required && !g.optional() {
			return
		}
		v.Set(reflect.New(t.Elem()))
		g.fill(v.Elem(), tags, depth)
		return
	}
	if !required && !g.optional() && t.Kind() != reflect.Struct {
		// leave zero unless a lower bound forces a value
		forced := false
		for _, tp := range tags {
			if (tp.name == "min" || tp.name == "gte" || tp.name == "gt") && !omitempty {
				if atoiDef(tp.param, 0) > 0 || tp.name == "gt" {
					forced = true
				}
			}
			if _, isEnum := enumByTag[tp.name]; isEnum && !omitempty {
				forced = true
			}
			if tp.name == "dive" {
				break
			}
		}
		if !forced {
			return
		}
	}
	switch t.Kind() {
	case reflect.String:
		minL, maxL := 0, -1
		if required {
			minL = 1
		}
		for _, tp := range tags {
			switch tp.name {
			case "max", "lte":
				maxL = atoiDef(tp.param, -1)
			case "min", "gte":
				minL = atoiDef(tp.param, minL)
			case "len":
				minL = atoiDef(tp.param, minL)
				maxL = minL
			case "url", "uri":
				v.SetString("https://example.com/a" + strconv.Itoa(g.r.Intn(100)))
				return
			}
			if vals, ok := enumByTag[tp.name]; ok && len(vals) > 0 {
				v.SetString(vals[g.r.Intn(len(vals))])
				return
			}
			if tp.name == "dive" {
				break
			}
		}
		v.SetString(g.str(minL, maxL))
	case reflect.Int, reflect.Int8, reflect.Int16, reflect.Int32, reflect.Int64:
		lo, hi := -5, 1000
		if required {
			lo = 1
		}
		hasLo := false
		for _, tp := range tags {
			switch tp.name {
			case "gte", "min":
				lo, hasLo = atoiDef(tp.param, lo), true
			case "gt":
				lo, hasLo = atoiDef(tp.param, lo)+1, true
			case "lte", "max":
				hi = atoiDef(tp.param, hi)
			case "lt":
				hi = atoiDef(tp.param, hi) - 1
			case "eq":
				lo, hi = atoiDef(tp.param, 0), atoiDef(tp.param, 0)
			}
		}
		if required && lo <= 0 && hi >= 1 {
			lo = 1
		}
		_ = hasLo
		if hi < lo {
			hi = lo
		}
		n := lo
		switch g.r.Intn(3) {
		case 0:
			n = lo
		case 1:
			n = hi
		default:
			n = lo + g.r.Intn(hi-lo+1)
		}
		if required && n == 0 {
			n = hi
		}
		v.SetInt(int64(n))
	case reflect.Float32, reflect.Float64:
		lo, hi := -3.5, 500.25
		if required {
			lo = 0.5
		}
		for _, tp := range tags {
			switch tp.name {
			case "gte", "min":
				lo = float64(atoiDef(tp.param, 0))
			case "gt":
				lo = float64(atoiDef(tp.param, 0)) + 0.5
			case "lte", "max":
				hi = float64(atoiDef(tp.param, 1000))
			case "lt":
				hi = float64(atoiDef(tp.param, 1000)) - 0.5
			}
		}
		if hi < lo {
			hi = lo
		}
		f := lo + float64(g.r.Intn(1000))/1000*(hi-lo)
		f = float64(int(f*100)) / 100
		if f < lo {
			f = lo
		}
		if required && f == 0 {
			f = hi
		}
		v.SetFloat(f)
	case reflect.Bool:
		v.SetBool(required || g.r.Intn(2) == 0)
	case reflect.Slice:
		minN, maxN := 0, 3
		if required {
			minN = 1
		}
		var elemTags []tagPart
		unique := false
		for i, tp := range tags {
			if tp.name == "dive" {
				elemTags = tags[i+1:]
				break
			}
			switch tp.name {
			case "min", "gte":
				minN = atoiDef(tp.param, minN)
			case "max", "lte":
				maxN = atoiDef(tp.param, maxN)
			case "unique":
				unique = true
			}
		}
		if maxN < minN {
			maxN = minN
		}
		if maxN > minN+2 {
			maxN = minN + 2
		}
		n := minN + g.r.Intn(maxN-minN+1)
		if depth > 6 && minN == 0 {
			n = 0
		}
		s := reflect.MakeSlice(t, n, n)
		seen := map[string]bool{}
		for i := 0; i < n; i++ {
			for try := 0; try < 20; try++ {
				s.Index(i).Set(reflect.Zero(t.Elem()))
				et := append([]tagPart{{name: "required"}}, elemTags...)
				g.fill(s.Index(i), et, depth+1)
				key := fmt.Sprint(s.Index(i).Interface())
				if !unique || !seen[key] {
					seen[key] = true
					break
				}
			}
		}
		v.Set(s)
	case reflect.Struct:
		if t.Name() == "DateTime" {
			tm := time.Unix(1500000000+int64(g.r.Intn(400000000)), 0).UTC()
			v.Field(0).Set(reflect.ValueOf(tm))
			return
		}
		for i := 0; i < t.NumField(); i++ {
			f := t.Field(i)
			if f.PkgPath != "" {
				continue
			}
			g.fill(v.Field(i), parseTags(f.Tag.Get("validate")), depth+1)
		}
	case reflect.Interface:
		switch g.r.Intn(3) {
		case 0:
			v.Set(reflect.ValueOf("free<text>&"))
		case 1:
			v.Set(reflect.ValueOf(map[string]interface{}{"k": "v", "n": 1.5}))
		default:
			v.Set(reflect.ValueOf([]interface{}{"x", true}))
		}
	case reflect.Map:
		// not used by OCPP payloads; leave nil
	}
}

// genValid builds a *T that passes the real validator (retries on struct-level rules); ok=false if it could not.
func genValid(r *rand.Rand, t reflect.Type, mode string) (reflect.Value, bool) {
	loadRegistry()
	g := &gen{r: r, mode: mode}
	var last reflect.Value
	for try := 0; try < 60; try++ {
		p := reflect.New(t)
		g.fill(p.Elem(), []tagPart{{name: "required"}}, 0)
		last = p
		if err := ocppj.Validate.Struct(p.Interface()); err == nil {
			return p, true
		}
		if try > 20 {
			g.mode = "" // loosen
		}
	}
	return last, false
}
