package main

import (
	"fmt"
	"math/rand"
	"strconv"
	"strings"
	"time"

	"github.com/lorenzodonini/ocpp-go/ocpp"
	"github.com/lorenzodonini/ocpp-go/ocpp1.6/core"
	"github.com/lorenzodonini/ocpp-go/ocppj"
	"github.com/lorenzodonini/ocpp-go/ws"
)

// H3/sdisp: real ocppj.Server + DefaultServerDispatcher on a fake ws.Server, one event at a time to
// quiescence, vs the Lean model Ocpp.SD.

type sdisp struct{}

func init() {
	suites["sdisp"] = sdisp{}
	childSuites["sdisp"] = runSDisp
}

func (sdisp) Gen(r *rand.Rand, sessions int) []string {
	var out []string
	for s := 0; s < sessions; s++ {
		capacity := []int{0, 0, 1, 2, 3}[r.Intn(5)]
		out = append(out, fmt.Sprintf("reset %d", capacity), "start")
		ncl := 1 + r.Intn(3)
		cls := []string{"A", "B", "C"}[:ncl]
		conn := map[string]bool{}
		wf := map[string]bool{}
		ids := map[string][]string{}
		running := true
		n := 0
		waits := 0
		// usually connect everybody first
		for _, c := range cls {
			if r.Intn(5) != 0 {
				conn[c] = true
				out = append(out, "connect "+c)
			}
		}
		nev := 8 + r.Intn(34)
		for i := 0; i < nev; i++ {
			c := cls[r.Intn(len(cls))]
			k := r.Intn(100)
			switch {
			case k < 36:
				n++
				id := fmt.Sprintf("s%d%s%d", s, strings.ToLower(c), n)
				ids[c] = append(ids[c], id)
				out = append(out, "send "+c+" "+id)
			case k < 64:
				if !conn[c] || !running {
					continue
				}
				id := "unknown"
				switch r.Intn(10) {
				case 0:
				case 1: // an id of another client
					o := cls[r.Intn(len(cls))]
					if len(ids[o]) > 0 {
						id = ids[o][r.Intn(len(ids[o]))]
					}
				default:
					if l := ids[c]; len(l) > 0 {
						id = l[r.Intn(len(l))]
						if r.Intn(2) == 0 {
							id = l[r.Intn((len(l)+1)/2)]
						}
					}
				}
				id = nearMissID(r, id)
				out = append(out, "reply "+c+" "+id+" "+pick(r, "result", "result", "error"))
			case k < 70:
				if waits < 3 && running {
					waits++
					out = append(out, "wait")
				}
			case k < 79:
				if conn[c] {
					conn[c] = false
					out = append(out, "disconnect "+c)
				}
			case k < 90:
				if !conn[c] && running {
					conn[c] = true
					out = append(out, "connect "+c)
				}
			case k < 95:
				wf[c] = !wf[c]
				out = append(out, "writefail "+c+" "+map[bool]string{true: "on", false: "off"}[wf[c]])
			case k < 97:
				if running && i > nev/2 {
					running = false
					conn = map[string]bool{}
					out = append(out, "stop")
				}
			}
		}
	}
	return out
}

func (sdisp) Run(ops []string, emit func(string)) { runIsolated("sdisp", ops, emit) }

func runSDisp(ops []string, emit func(string)) {
	var fs *fakeServer
	var srv *ocppj.Server
	lg := &evlog{}
	nextID := ""
	ocppj.SetMessageIdGenerator(func() string { return nextID })
	tainted, dead, started := false, false, false
	arms := &armTracker{}
	var waitStart time.Time
	var waitOldest time.Duration
	for _, l := range ops {
		f := fields(l)
		if f[0] == "reset" {
			if srv != nil && started && !dead {
				func() {
					defer func() { _ = recover() }()
					srv.Stop()
				}()
			}
			capacity, _ := strconv.Atoi(f[1])
			lg = &evlog{} // a fresh log: late effects of the previous session's endpoint must not leak into this one
			lg := lg
			fs = newFakeServer()
			fs.onWrite = func(c string, data []byte) {
				fr, err := parseFrame(data)
				if err == nil && fr.Type == 2 {
					arms.arm(c + ":" + fr.ID)
					lg.add("wrote:" + c + ":" + fr.ID)
				} else {
					lg.add("wrote-other:" + c)
				}
			}
			d := ocppj.NewDefaultServerDispatcher(ocppj.NewFIFOQueueMap(capacity))
			d.SetTimeout(dispTimeout)
			srv = ocppj.NewServer(fs, d, nil, core.Profile)
			srv.SetDialect(ocpp.V16)
			srv.SetResponseHandler(func(ch ws.Channel, r ocpp.Response, id string) { lg.add("resp:" + ch.ID() + ":" + id) })
			srv.SetErrorHandler(func(ch ws.Channel, e *ocpp.Error, details interface{}) { lg.add("err:" + ch.ID() + ":" + e.MessageId) })
			srv.SetRequestHandler(func(ch ws.Channel, r ocpp.Request, id string, action string) {})
			srv.SetCanceledRequestHandler(func(c string, id string, r ocpp.Request, e *ocpp.Error) {
				kind := "write"
				if e.Code == ocppj.GenericError {
					kind = "timeout"
				}
				lg.add("cancel:" + c + ":" + id + ":" + kind)
			})
			lg.take()
			arms.reset()
			tainted, dead, started = false, false, false
			rebaseStuck()
			emit("ok")
			continue
		}
		if dead {
			emit("DEAD")
			continue
		}
		if tainted {
			emit("TIMING")
			continue
		}
		var pre []string
		switch f[0] {
		case "start":
			if !started {
				started = true
				go srv.Start(0, "/")
				// Start is asynchronous: wait until the dispatcher accepts requests
				for i := 0; i < 5000; i++ {
					if err := srv.SendRequest("\x00", probeReq{}); err == nil || !strings.Contains(err.Error(), "is not started") {
						break
					}
					time.Sleep(50 * time.Microsecond)
				}
			}
		case "stop":
			if started {
				pre = append(pre, "stopped")
				srv.Stop()
				arms.reset()
				started = false
			}
		case "connect":
			fs.connect(f[1])
		case "disconnect":
			fs.disconnect(f[1])
			arms.dropPrefix(f[1] + ":")
		case "send":
			nextID = f[2]
			if err := srv.SendRequest(f[1], core.NewClearCacheRequest()); err != nil {
				pre = append(pre, "rejected:"+f[1]+":"+f[2])
			} else {
				pre = append(pre, "accepted:"+f[1]+":"+f[2])
			}
			// keep timer arming times apart so that expiries are handled one at a time
			time.Sleep(1500 * time.Microsecond)
		case "reply":
			var fr string
			if f[3] == "result" {
				fr = fmt.Sprintf(`[3,"%s",{"status":"Accepted"}]`, wireID(f[2]))
			} else {
				fr = fmt.Sprintf(`[4,"%s","GenericError","some error",{}]`, wireID(f[2]))
			}
			done := make(chan struct{})
			go func() { _ = fs.deliver(f[1], []byte(fr)); close(done) }()
			select {
			case <-done:
			case <-time.After(300 * time.Millisecond):
			}
			time.Sleep(1500 * time.Microsecond)
		case "wait":
			waitStart, waitOldest = time.Now(), arms.oldest()
			if waitOldest > dispTimeout/2 {
				// a request written when the first armed timer fires could itself expire within this wait
				tainted = true
				emit("TIMING")
				continue
			}
			time.Sleep(dispTimeout + 20*time.Millisecond)
		case "writefail":
			if f[2] == "on" {
				fs.setWriteErr(f[1], fmt.Errorf("injected write failure"))
			} else {
				fs.setWriteErr(f[1], nil)
			}
		default:
			emit("bad-op")
			continue
		}
		out := settle(lg)
		earlyTO := arms.early(out, dispTimeout)
		arms.observe(out)
		if f[0] == "wait" && time.Since(waitStart)+waitOldest > 2*dispTimeout-10*time.Millisecond {
			// the harness overslept: a request written at the first expiry may already have expired too
			tainted = true
			emit("TIMING")
			continue
		}
		if f[0] == "wait" && doubleTimeout(out) {
			// two expiries on one connection within one `wait`: the harness overslept (the second request was written
			// when the first expired); the quiescent model fires each armed timer once per wait
			tainted = true
			emit("TIMING")
			continue
		}
		if f[0] != "wait" && strings.Contains(out, ":timeout") && !earlyTO {
			tainted = true
			emit("TIMING")
			continue
		}
		if strings.Contains(out, "BLOCKED") {
			dead = true
			out = "BLOCKED"
			pre = nil
		}
		if f[0] == "reply" && out != "-" {
			parts := strings.Split(out, " ")
			var h, rest []string
			for _, p := range parts {
				if strings.HasPrefix(p, "resp:") || strings.HasPrefix(p, "err:") {
					h = append(h, p)
				} else {
					rest = append(rest, p)
				}
			}
			out = strings.Join(append(h, rest...), " ")
		}
		if len(pre) > 0 {
			if out == "-" {
				out = strings.Join(pre, " ")
			} else {
				out = strings.Join(pre, " ") + " " + out
			}
		}
		emit(out)
	}
}
