package main

import (
	"fmt"
	"sync/atomic"
	"time"

	"github.com/lorenzodonini/ocpp-go/ocpp"
	"github.com/lorenzodonini/ocpp-go/ocppj"
)

// Rounds c16_latepush (C16 / C01, directed; run by monitor c16_restart): a SendRequestAsync that has passed the IsRunning
// check of the ocppj client is slow inside the request queue's Push (injected RequestQueue with a gate) while the endpoint is
// stopped; then the endpoint is started again and a new request is sent and answered. Whatever becomes of the slow
// request (refused, or accepted and discarded by Stop), it must not go out in the new session, and the callback of the new
// request must receive its own response.
type holdQueue struct {
	*ocppj.FIFOClientQueue
	hold    chan struct{}
	entered chan struct{}
	armed   int32
}

func (h *holdQueue) Push(e interface{}) error {
	if atomic.CompareAndSwapInt32(&h.armed, 1, 0) {
		close(h.entered)
		<-h.hold
	}
	return h.FIFOClientQueue.Push(e)
}

func init() {
	roundsProp["c16_latepush"] = "C16"
	rounds["c16_latepush"] = func(seed int64, i int) roundResult {
		var res roundResult
		ver := []string{"R16", "R201"}[i%2]
		hq := &holdQueue{FIFOClientQueue: ocppj.NewFIFOClientQueue(0), hold: make(chan struct{}), entered: make(chan struct{}), armed: 1}
		e := newEndpoint(ver, "cp", epOpts{timeout: 2 * time.Second, clientQueue: hq})
		reply := func(id string) string { return fmt.Sprintf(`[3,"%s",{"status":"Accepted","data":"%s"}]`, id, id) }
		var staleErr error
		sent := make(chan struct{})
		go func() {
			staleErr = e.sendAsync("", dataTransferReq(ver), func(r ocpp.Response, err error) {})
			close(sent)
		}()
		<-hq.entered
		stopped := make(chan struct{})
		go func() { e.stop(); close(stopped) }()
		time.Sleep(20 * time.Millisecond) // Stop runs as far as it can (the callback mutex is held by the sender)
		close(hq.hold)
		<-sent
		select {
		case <-stopped:
		case <-time.After(2 * time.Second):
			res.Violations = append(res.Violations, Violation{Property: "C16", Sig: "stop-wedged", What: "Stop did not return"})
			return res
		}
		time.Sleep(5 * time.Millisecond)
		e.start()
		time.Sleep(5 * time.Millisecond)
		pre := e.takeWrites()
		got := make(chan string, 2)
		err := e.sendAsync("", dataTransferReq(ver), func(r ocpp.Response, err error) { got <- fmt.Sprintf("%+v %v", r, err) })
		res.Events = 1
		if err != nil {
			res.Violations = append(res.Violations, Violation{Property: "C16", Sig: "restart/send-rejected", What: fmt.Sprint(err)})
			return res
		}
		// answer everything that is written, in order
		deadline := time.Now().Add(time.Second)
		var ids []string
		for time.Now().Before(deadline) && len(got) == 0 {
			for _, w := range e.takeWrites() {
				if fr, err := parseFrame(w.data); err == nil && fr.Type == 2 {
					ids = append(ids, fr.ID)
					_ = e.deliver("", []byte(reply(fr.ID)))
				}
			}
			time.Sleep(time.Millisecond)
		}
		select {
		case g := <-got:
			if !containsStr(g, "Data:m2") {
				res.Violations = append(res.Violations, Violation{Property: "C16", Sig: "restart/stale-queued-call", What: fmt.Sprintf("%s: the stale sender returned %v; written before the new request: %d frames; in the new session the CALLs %v went out and the callback of the new request received %s", ver, staleErr, len(pre), ids, g)})
			}
		default:
			res.Violations = append(res.Violations, Violation{Property: "C16", Sig: "restart/callback-lost", What: fmt.Sprintf("no callback; CALLs %v", ids)})
		}
		e.stop()
		return res
	}
}
