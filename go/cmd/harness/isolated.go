package main

import (
	"bufio"
	"bytes"
	"encoding/json"
	"fmt"
	"sync"
	"os"
	"os/exec"
	"strings"
	"time"
)

// runIsolated executes every session (lines from one "reset" to the next) in a child process, so that a panic
// in a library goroutine (which kills the process) is observed as output "PANIC" on the operation that caused
// it and "DEAD" for the rest of the session.
func runIsolated(suiteName string, ops []string, emit func(string)) {
	var ses [][]string
	for _, o := range ops {
		if strings.HasPrefix(o, "reset") || strings.HasPrefix(o, "f ") || strings.HasPrefix(o, "h ") || strings.HasPrefix(o, "k ") || strings.HasPrefix(o, "p ") || strings.HasPrefix(o, "e ") || strings.HasPrefix(o, "d ") || len(ses) == 0 {
			ses = append(ses, nil)
		}
		ses[len(ses)-1] = append(ses[len(ses)-1], o)
	}
	// parallel batches, output re-assembled in order
	const batch = 12
	nb := (len(ses) + batch - 1) / batch
	outs := make([][]string, nb)
	var wg sync.WaitGroup
	sem := make(chan struct{}, 12)
	for b := 0; b < nb; b++ {
		wg.Add(1)
		go func(b int) {
			defer wg.Done()
			sem <- struct{}{}
			defer func() { <-sem }()
			hi := (b + 1) * batch
			if hi > len(ses) {
				hi = len(ses)
			}
			runBatch(suiteName, ses[b*batch:hi], func(s string) { outs[b] = append(outs[b], s) })
		}(b)
	}
	wg.Wait()
	for _, o := range outs {
		for _, l := range o {
			emit(l)
		}
	}
}

func runBatch(suiteName string, ses [][]string, emit func(string)) {
	exe, _ := os.Executable()
	i := 0
	for i < len(ses) {
		j := len(ses)
		var lines []string
		for _, s := range ses[i:j] {
			lines = append(lines, s...)
		}
		cmd := exec.Command(exe, "child", suiteName)
		cmd.Env = append(os.Environ(), "GOTRACEBACK=single")
		cmd.Stdin = strings.NewReader(strings.Join(lines, "\n") + "\n")
		out, _ := cmd.StdoutPipe()
		cmd.Stderr = nil
		_ = cmd.Start()
		sc := bufio.NewScanner(out)
		sc.Buffer(make([]byte, 1<<20), 1<<26)
		got := 0
		done := make(chan struct{})
		go func() {
			for sc.Scan() {
				emit(sc.Text())
				got++
			}
			close(done)
		}()
		select {
		case <-done:
		case <-time.After(120 * time.Second):
			_ = cmd.Process.Kill()
			<-done
		}
		_ = cmd.Wait()
		if got < len(lines) {
			// the child died on operation `got`: find its session
			emit("PANIC")
			got++
			pos := 0
			k := i
			for ; k < j; k++ {
				if got <= pos+len(ses[k]) {
					break
				}
				pos += len(ses[k])
			}
			for ; got < pos+len(ses[k]); got++ {
				emit("DEAD")
			}
			i = k + 1
			continue
		}
		i = j
	}
}

// property a crash of a round process is attributed to (default C06)
var roundsProp = map[string]string{}

// rounds: monitor rounds that run in their own process (a wedged or crashed endpoint cannot pollute the next)
var rounds = map[string]func(seed int64, i int) roundResult{}

func runRounds(name string, seed int64, n, par int) []roundResult {
	exe, _ := os.Executable()
	res := make([]roundResult, n)
	sem := make(chan struct{}, par)
	var wg sync.WaitGroup
	for i := 0; i < n; i++ {
		wg.Add(1)
		go func(i int) {
			defer wg.Done()
			sem <- struct{}{}
			defer func() { <-sem }()
			cmd := exec.Command(exe, "round", name, fmt.Sprint(seed), fmt.Sprint(i))
			cmd.Env = append(os.Environ(), "GOTRACEBACK=all")
			var out, errb bytes.Buffer
			cmd.Stdout, cmd.Stderr = &out, &errb
			done := make(chan error, 1)
			_ = cmd.Start()
			go func() { done <- cmd.Wait() }()
			select {
			case <-done:
			case <-time.After(90 * time.Second):
				_ = cmd.Process.Kill()
				<-done
			}
			var r roundResult
			if err := json.Unmarshal(out.Bytes(), &r); err != nil {
				// the round process died: a panic in a library goroutine
				st := errb.String()
				full := st
				for _, mark := range []string{"\npanic:", "\nfatal error:"} {
					if k := strings.Index(st, mark); k >= 0 {
						st = st[k+1:]
						break
					}
				}
				site := "?"
				for _, l := range strings.Split(st, "\n") {
					if strings.Contains(l, "github.com/lorenzodonini/ocpp-go/") && !strings.Contains(l, "_test") && strings.Contains(l, "(") {
						site = strings.TrimSpace(l)
						if j := strings.Index(site, "(0x"); j > 0 {
							site = site[:j]
						}
						if j := strings.Index(site, "({"); j > 0 {
							site = site[:j]
						}
						site = site[strings.LastIndex(site, "/")+1:]
						break
					}
				}
				if len(st) > 3000 {
					st = st[:3000]
				}
				site = panicSite(st, site)
				if site == "HARNESS" {
					fmt.Fprintln(os.Stderr, "HARNESS-ERROR", name, i, strings.SplitN(st, "\n", 2)[0])
					res[i] = r
					return
				}
				var replay interface{} = st
				if j := strings.LastIndex(full, "FRAME "); j >= 0 {
					last := strings.SplitN(full[j+6:], "\n", 2)[0]
					replay = map[string]interface{}{"last_frame_hex": last, "stack": st}
				}
				prop := roundsProp[name]
				if prop == "" {
					prop = "C06"
				}
				r.Violations = append(r.Violations, Violation{Property: prop, Sig: "panic:" + site, What: fmt.Sprintf("%s round %d (seed %d): the process died with a panic in a library goroutine at %s", name, i, seed, site), Replay: replay})
			}
			res[i] = r
		}(i)
	}
	wg.Wait()
	return res
}

func runSched(runs []string, par int) []schedResult {
	exe, _ := os.Executable()
	res := make([]schedResult, len(runs))
	sem := make(chan struct{}, par)
	var wg sync.WaitGroup
	for i := range runs {
		wg.Add(1)
		go func(i int) {
			defer wg.Done()
			sem <- struct{}{}
			defer func() { <-sem }()
			cmd := exec.Command(exe, "sched", runs[i])
			cmd.Env = append(os.Environ(), "GOTRACEBACK=all")
			var out, errb bytes.Buffer
			cmd.Stdout, cmd.Stderr = &out, &errb
			done := make(chan error, 1)
			_ = cmd.Start()
			go func() { done <- cmd.Wait() }()
			select {
			case <-done:
			case <-time.After(60 * time.Second):
				_ = cmd.Process.Kill()
				<-done
			}
			var r schedResult
			if err := json.Unmarshal(out.Bytes(), &r); err != nil {
				st := errb.String()
				site := "?"
				for _, l := range strings.Split(st, "\n") {
					if strings.Contains(l, "github.com/lorenzodonini/ocpp-go/") && strings.Contains(l, "(") {
						site = strings.TrimSpace(l)
						if j := strings.Index(site, "(0x"); j > 0 {
							site = site[:j]
						}
						if j := strings.Index(site, "({"); j > 0 {
							site = site[:j]
						}
						site = site[strings.LastIndex(site, "/")+1:]
						break
					}
				}
				if len(st) > 2500 {
					st = st[:2500]
				}
				site = panicSite(st, site)
				r.Events = 1
				if site == "HARNESS" {
					fmt.Fprintln(os.Stderr, "HARNESS-ERROR", runs[i], strings.SplitN(st, "\n", 2)[0])
					res[i] = r
					return
				}
				r.Violations = append(r.Violations, Violation{Property: "C06", Sig: "panic:" + site, What: "the process died with a panic in a library goroutine at " + site, Replay: st})
			}
			res[i] = r
		}(i)
	}
	wg.Wait()
	return res
}

// panicSite extracts "<endpoint>:<function>" of the first library frame of a crash dump
func panicSite(st, fallback string) string {
	lines := strings.Split(st, "\n")
	for _, l := range lines {
		if strings.Contains(l, "github.com/lorenzodonini/ocpp-go/") && strings.Contains(l, "(") && !strings.HasPrefix(strings.TrimSpace(l), "/") {
			fn := strings.TrimSpace(l)
			for _, cut := range []string{"(0x", "({", "(...)"} {
				if j := strings.Index(fn, cut); j > 0 {
					fn = fn[:j]
				}
			}
			fn = fn[strings.LastIndex(fn, "/")+1:]
			fn = strings.TrimPrefix(fn, "ocppj.")
			fn = strings.NewReplacer("(*DefaultClientDispatcher).", "client:", "(*DefaultServerDispatcher).", "server:", "(*Client).", "client:", "(*Server).", "server:").Replace(fn)
			if j := strings.Index(fn, ".func"); j > 0 {
				fn = fn[:j]
			}
			return fn
		}
	}
	// no library frame at all: the harness itself failed; not a finding about the library
	return "HARNESS"
}
