package main

import (
	"bufio"
	"sync"
	"os"
	"os/exec"
	"strings"
	"time"
)

// runIsolated executes every session (lines from one "reset" to the next) in a child process, so that a panic
// in a library goroutine (which kills the process) is observed as output "PANIC" on the operation that caused
// it and "DEAD" for the rest of the session.
func runIsolated(suiteName string, ops []string, emit func(string)) {
	var ses [][]string
	for _, o := range ops {
		if strings.HasPrefix(o, "reset") || len(ses) == 0 {
			ses = append(ses, nil)
		}
		ses[len(ses)-1] = append(ses[len(ses)-1], o)
	}
	// parallel batches, output re-assembled in order
	const batch = 12
	nb := (len(ses) + batch - 1) / batch
	outs := make([][]string, nb)
	var wg sync.WaitGroup
	sem := make(chan struct{}, 12)
	for b := 0; b < nb; b++ {
		wg.Add(1)
		go func(b int) {
			defer wg.Done()
			sem <- struct{}{}
			defer func() { <-sem }()
			hi := (b + 1) * batch
			if hi > len(ses) {
				hi = len(ses)
			}
			runBatch(suiteName, ses[b*batch:hi], func(s string) { outs[b] = append(outs[b], s) })
		}(b)
	}
	wg.Wait()
	for _, o := range outs {
		for _, l := range o {
			emit(l)
		}
	}
}

func runBatch(suiteName string, ses [][]string, emit func(string)) {
	exe, _ := os.Executable()
	i := 0
	for i < len(ses) {
		j := len(ses)
		var lines []string
		for _, s := range ses[i:j] {
			lines = append(lines, s...)
		}
		cmd := exec.Command(exe, "child", suiteName)
		cmd.Env = append(os.Environ(), "GOTRACEBACK=single")
		cmd.Stdin = strings.NewReader(strings.Join(lines, "\n") + "\n")
		out, _ := cmd.StdoutPipe()
		cmd.Stderr = nil
		_ = cmd.Start()
		sc := bufio.NewScanner(out)
		sc.Buffer(make([]byte, 1<<20), 1<<26)
		got := 0
		done := make(chan struct{})
		go func() {
			for sc.Scan() {
				emit(sc.Text())
				got++
			}
			close(done)
		}()
		select {
		case <-done:
		case <-time.After(120 * time.Second):
			_ = cmd.Process.Kill()
			<-done
		}
		_ = cmd.Wait()
		if got < len(lines) {
			// the child died on operation `got`: find its session
			emit("PANIC")
			got++
			pos := 0
			k := i
			for ; k < j; k++ {
				if got <= pos+len(ses[k]) {
					break
				}
				pos += len(ses[k])
			}
			for ; got < pos+len(ses[k]); got++ {
				emit("DEAD")
			}
			i = k + 1
			continue
		}
		i = j
	}
}
