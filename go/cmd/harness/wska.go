package main

import (
	"fmt"
	"math/rand"
	"time"

	"github.com/lorenzodonini/ocpp-go/ws"
)

// suite wska (C17 keep-alive): one healthy idle connection between the real ws.Client and the real ws.Server for
// every ping/pong configuration on either side, and dead peers.
//   k <clientPingPeriod> <clientPongWait> <serverPingWait> <serverPingPeriod> <serverPongWait>   (ms; periods 0|40, waits 0|160)
//        -> alive | dropped      after 600 ms of idleness
//   d <serverPingWait> <serverPingPeriod> <serverPongWait>     a raw peer that never reads, never pings
//        -> detected:<the configured wait (ms) closest to the time of the drop> | kept | late

type wska struct{}

func init() {
	suites["wska"] = wska{}
	childSuites["wska"] = func(ops []string, emit func(string)) {
		for _, l := range ops {
			emit(guard(func() string { return wskaOne(fields(l)) }))
		}
	}
}

func (wska) Run(ops []string, emit func(string)) { runIsolated("wska", ops, emit) }

func (wska) Gen(r *rand.Rand, n int) []string {
	var out []string
	p := func() int { return []int{0, 40}[r.Intn(2)] }
	w := func() int { return []int{0, 160}[r.Intn(2)] }
	// the server's two waits also take values that differ from each other (which of them applies is part of the contract)
	wd := func() int { return []int{0, 160, 160, 1200}[r.Intn(4)] }
	wk := func() int { return []int{0, 160, 160, 20}[r.Intn(4)] }
	for i := 0; i < n; i++ {
		if r.Intn(4) == 0 {
			out = append(out, fmt.Sprintf("d %d %d %d", wd(), p(), wd()))
		} else {
			out = append(out, fmt.Sprintf("k %d %d %d %d %d", p(), w(), wk(), p(), w()))
		}
	}
	return out
}

func ms(s string) time.Duration {
	var n int
	fmt.Sscan(s, &n)
	return time.Duration(n) * time.Millisecond
}

func wskaOne(f []string) string {
	switch {
	case f[0] == "k" && len(f) == 6:
		sc := ws.NewServerTimeoutConfig()
		sc.PingWait, sc.PingPeriod, sc.PongWait = ms(f[3]), ms(f[4]), ms(f[5])
		c := startWsServer(srvOpts{timeouts: &sc})
		defer c.s.Stop()
		cl := ws.NewClient()
		cl.SetRequestedSubProtocol("ocpp1.6")
		cc := ws.NewClientTimeoutConfig()
		cc.PingPeriod, cc.PongWait = ms(f[1]), ms(f[2])
		cc.RetryBackOffWaitMinimum = 10 * time.Second // no reconnection within the observation
		cl.SetTimeoutConfig(cc)
		cl.SetMessageHandler(func([]byte) error { return nil })
		dropped := make(chan struct{}, 4)
		cl.SetDisconnectedHandler(func(err error) { dropped <- struct{}{} })
		if err := cl.Start(c.url("ka")); err != nil {
			return "start-error"
		}
		defer cl.Stop()
		waitCond(time.Second, func() bool { return c.size() >= 1 })
		c.take()
		select {
		case <-dropped:
			return "dropped"
		case <-time.After(600 * time.Millisecond):
		}
		for _, e := range c.take() {
			if e.kind == "disc" {
				return "dropped"
			}
		}
		if !cl.IsConnected() {
			return "dropped"
		}
		return "alive"
	case f[0] == "d" && len(f) == 4:
		sc := ws.NewServerTimeoutConfig()
		sc.PingWait, sc.PingPeriod, sc.PongWait = ms(f[1]), ms(f[2]), ms(f[3])
		c := startWsServer(srvOpts{timeouts: &sc})
		defer c.s.Stop()
		d := rawDial(c.url("dead"), []string{"ocpp1.6"}, nil)
		if d.err != nil {
			return "dial-error"
		}
		defer d.conn.Close()
		waitCond(time.Second, func() bool { return c.size() >= 1 })
		c.take()
		t0 := time.Now()
		maxW := ms(f[1])
		if ms(f[3]) > maxW {
			maxW = ms(f[3])
		}
		if maxW < 160*time.Millisecond {
			maxW = 160 * time.Millisecond
		}
		got := waitCond(maxW+740*time.Millisecond, func() bool {
			for _, e := range c.snapshot() {
				if e.kind == "disc" {
					return true
				}
			}
			return false
		})
		if !got {
			return "kept"
		}
		el := time.Since(t0)
		// which configured wait was applied: the closest one (the candidates are at least a second apart, or equal)
		best, bestD := "", time.Duration(1<<62)
		for _, k := range []int{1, 3} {
			w := ms(f[k])
			if w == 0 {
				continue
			}
			d := el - w
			if d < 0 {
				d = -d
			}
			if d < bestD {
				best, bestD = f[k], d
			}
		}
		if best == "" || el > ms(best)+400*time.Millisecond {
			return "late"
		}
		return "detected:" + best
	}
	return "bad-op"
}
