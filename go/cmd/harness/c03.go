package main

import (
	"encoding/json"
	"fmt"
	"math/rand"
	"reflect"
	"strings"
	"time"

	"github.com/lorenzodonini/ocpp-go/ocpp"
	"github.com/lorenzodonini/ocpp-go/ocppj"
)

// H3/c03: answering incoming CALLs on the four real protocol endpoints vs the Lean decision logic Ocpp.Resp.answer.
// One line = one exchange on a fresh endpoint:
//   a <ver> <role> <feature> known=<0|1> handler=<0|1> insw=<0|1> write=<0|1> <outcome> [arg]
// output: <reply> ran=<0|1> id=<ok|bad|->      reply ∈ result | error:<code> | none | many:<n>

type c03suite struct{}

func init() {
	suites["c03"] = c03suite{}
}

// breakResponse turns a valid response into one whose only validation failure is on `want` (required | max)
func breakResponse(v reflect.Value, want string) bool {
	v = reflect.Indirect(v)
	t := v.Type()
	for i := 0; i < t.NumField(); i++ {
		f := t.Field(i)
		tags := parseTags(f.Tag.Get("validate"))
		fv := v.Field(i)
		has := func(n string) (string, bool) {
			for _, tp := range tags {
				if tp.name == "dive" {
					break
				}
				if tp.name == n {
					return tp.param, true
				}
			}
			return "", false
		}
		switch want {
		case "required":
			if _, ok := has("required"); ok {
				fv.Set(reflect.Zero(f.Type))
				return true
			}
		case "max":
			if p, ok := has("max"); ok && fv.Kind() == reflect.String {
				n := atoiDef(p, 10)
				fv.SetString(strings.Repeat("x", n+1))
				return true
			}
		}
	}
	return false
}

var validCodes = []string{"NotImplemented", "NotSupported", "InternalError", "ProtocolError", "SecurityError", "FormationViolation", "FormatViolation", "PropertyConstraintViolation", "OccurenceConstraintViolation", "OccurrenceConstraintViolation", "TypeConstraintViolation", "GenericError", "MessageTypeNotSupported"}

func (c03suite) Gen(r *rand.Rand, sessions int) []string {
	spec := loadSpecRoles()
	var out []string
	peer := map[string]string{"cp": "cs", "cs": "cp"}
	// sessions >= 1000: the routing rows only (handler set / not set / only this profile's handler), every feature (C18)
	routing := sessions >= 1000
	for _, ver := range []string{"R16", "R201"} {
		feats := allFeatures(ver)
		for _, role := range []string{"cp", "cs"} {
			for _, f := range feats {
				insw := contains(spec[ver][peer[role]], f)
				// sampling density: `sessions` is a percentage of the full matrix
				sampled := routing || r.Intn(100) < sessions
				b := func(x bool) string {
					if x {
						return "1"
					}
					return "0"
				}
				pre := fmt.Sprintf("a %s %s %s known=1", ver, role, f)
				outcomes := []string{"valid", "invalid required", "invalid max", "nil", "error"}
				outcomes = append(outcomes, "ocpperr "+validCodes[r.Intn(len(validCodes))], "ocpperr "+pick(r, "Bogus", "notsupported", "GenericError "))
				if routing {
					outcomes = []string{"valid"}
				}
				if !sampled {
					// the routing rows are never sampled away (every subset of handlers x every feature)
					outcomes = nil
				}
				for _, o := range outcomes {
					out = append(out, fmt.Sprintf("%s handler=1 insw=%s write=1 %s", pre, b(insw), strings.ReplaceAll(o, "GenericError ", "GenericError_")))
				}
				out = append(out, fmt.Sprintf("%s handler=0 insw=%s write=1 valid", pre, b(insw)))
				// variant c: only the handler of this feature's profile is registered (every subset of handlers)
				out = append(out, fmt.Sprintf("c%s handler=1 insw=%s write=1 valid", pre[1:], b(insw)))
				if routing || !sampled {
					continue
				}
				if r.Intn(3) == 0 {
					out = append(out, fmt.Sprintf("b%s handler=1 insw=%s write=1 %s", pre[1:], b(insw), pick(r, "nil", "nil", "error", "invalid required", "ocpperr Bogus", "valid")))
				}
				if r.Intn(4) == 0 {
					out = append(out, fmt.Sprintf("%s handler=1 insw=%s write=0 %s", pre, b(insw), pick(r, "valid", "nil", "error", "ocpperr Bogus", "invalid required")))
				}
			}
			out = append(out, fmt.Sprintf("a %s %s NoSuchFeature known=0 handler=1 insw=0 write=1 valid", ver, role))
			// directed, not sampled: the unread-Errors() variant for every outcome on one feature this role receives
			for _, f := range feats {
				if routing {
					break
				}
				if contains(spec[ver][peer[role]], f) {
					for _, o := range []string{"nil", "error", "invalid required", "ocpperr Bogus", "valid"} {
						out = append(out, fmt.Sprintf("b %s %s %s known=1 handler=1 insw=1 write=1 %s", ver, role, f, o))
					}
					break
				}
			}
		}
	}
	return out
}

func (c03suite) Run(ops []string, emit func(string)) {
	r := rand.New(rand.NewSource(7))
	for _, l := range ops {
		emit(guard(func() string { return c03Exchange(r, fields(l)) }))
	}
}

func c03Exchange(r *rand.Rand, f []string) string {
	if len(f) < 9 || (f[0] != "a" && f[0] != "b" && f[0] != "c") {
		return "bad-op"
	}
	// variant b: the application asked for the Errors() channel but does not read it, and the same CALL was
	// already handled twice before (anything the endpoint reports there must not hold up the reply)
	withErrors := f[0] == "b"
	ver, role, feature := f[1], f[2], f[3]
	flag := func(s string) bool { return strings.HasSuffix(s, "=1") }
	handler, writeOk := flag(f[5]), flag(f[7])
	outcome := f[8]
	arg := ""
	if len(f) > 9 {
		arg = strings.ReplaceAll(f[9], "_", " ")
	}
	feat := featureOf(ver, feature)
	opts := epOpts{}
	if !handler && feat != nil {
		// leave out the handler of this feature's profile
		setters, prof := stubSetters(ver, role)
		pname := ""
		for _, p := range profileList(ver) {
			if _, ok := p.Features[feature]; ok {
				pname = p.Name
			}
		}
		opts.skipHandlers = map[string]bool{}
		for _, s := range setters {
			if prof[s] == pname {
				opts.skipHandlers[s] = true
			}
		}
	}
	if f[0] == "c" && feat != nil {
		// register the handler of this feature's profile only
		setters, prof := stubSetters(ver, role)
		pname := ""
		for _, p := range profileList(ver) {
			if _, ok := p.Features[feature]; ok {
				pname = p.Name
			}
		}
		opts.skipHandlers = map[string]bool{}
		for _, s := range setters {
			if prof[s] != pname {
				opts.skipHandlers[s] = true
			}
		}
	}
	e := newEndpoint(ver, role, opts)
	defer func() {
		defer func() { _ = recover() }()
		if f[0] == "b" {
			// the endpoint may still be reporting on the (deliberately unread) Errors() channel, and Stop closes that
			// channel under the reporter's feet (known finding S12, C16): leave this endpoint running
			return
		}
		e.stop()
	}()
	if role == "cs" {
		e.fs.connect("c1")
	}
	skip := false
	e.hub.script = func(c handlerCall, respType reflect.Type) (interface{}, error) {
		switch outcome {
		case "valid":
			v, _ := genValid(r, respType.Elem(), "")
			return v.Interface(), nil
		case "invalid":
			v, _ := genValid(r, respType.Elem(), "full")
			if !breakResponse(v, arg) {
				skip = true
			}
			return v.Interface(), nil
		case "nil":
			return reflect.Zero(respType).Interface(), nil
		case "error":
			return nil, fmt.Errorf("application failure")
		case "ocpperr":
			return nil, ocpp.NewHandlerError(ocpp.ErrorCode(arg), "handler says no")
		}
		return nil, nil
	}
	payload := "{}"
	if feat != nil {
		pv, _ := genValid(r, feat.GetRequestType(), "")
		pb, _ := json.Marshal(pv.Interface())
		payload = string(pb)
	}
	if !writeOk {
		if role == "cs" {
			e.fs.setWriteErr("c1", fmt.Errorf("injected"))
		} else {
			e.fc.setWriteErr(fmt.Errorf("injected"))
		}
	}
	if withErrors {
		_ = e.errors()
		for _, id := range []string{"rq-75", "rq-76"} {
			done := make(chan struct{})
			go func(id string) {
				_ = e.deliver("c1", []byte(fmt.Sprintf(`[2,"%s","%s",%s]`, id, feature, payload)))
				close(done)
			}(id)
			select {
			case <-done:
			case <-time.After(300 * time.Millisecond):
			}
			e.waitWrites(1, 50*time.Millisecond)
		}
		time.Sleep(500 * time.Microsecond)
		e.takeWrites()
		e.hub.takeCalls()
	}
	// the unique id of the CALL cycles through a short one, the longest legal one (36 characters, the length of a UUID)
	// and a one-character id: the reply must carry it whatever its length
	c03Row++
	callID := []string{"rq-77", "0a1b2c3d-4e5f-6789-abcd-ef0123456789", "x"}[c03Row%3]
	dl := make(chan struct{})
	go func() {
		_ = e.deliver("c1", []byte(fmt.Sprintf(`[2,"%s","%s",%s]`, callID, feature, payload)))
		close(dl)
	}()
	select {
	case <-dl:
	case <-time.After(400 * time.Millisecond):
	}
	ws := e.waitWrites(1, map[bool]time.Duration{true: 400 * time.Millisecond, false: 5 * time.Millisecond}[writeOk])
	time.Sleep(300 * time.Microsecond)
	ws = append(ws, e.takeWrites()...)
	calls := e.hub.takeCalls()
	if skip {
		return "SKIP"
	}
	ran := "0"
	if len(calls) > 0 {
		ran = "1"
	}
	reply, id := "none", "-"
	switch len(ws) {
	case 0:
	case 1:
		fr, err := parseFrame(ws[0].data)
		if err != nil {
			reply = "unparsable"
			break
		}
		id = "bad"
		if fr.ID == callID {
			id = "ok"
		}
		if fr.Type == 3 {
			reply = "result"
		} else if fr.Type == 4 {
			reply = "error:" + strings.ReplaceAll(fr.Code, " ", "_")
		} else {
			reply = fmt.Sprintf("type%d", fr.Type)
		}
	default:
		reply = fmt.Sprintf("many:%d", len(ws))
	}
	return reply + " ran=" + ran + " id=" + id
}

var c03Row int

func stubSetters(ver, role string) ([]string, map[string]string) {
	switch ver + role {
	case "R16cp":
		return stubSetters_R16_cp, stubSetterProfile_R16_cp
	case "R16cs":
		return stubSetters_R16_cs, stubSetterProfile_R16_cs
	case "R201cp":
		return stubSetters_R201_cp, stubSetterProfile_R201_cp
	}
	return stubSetters_R201_cs, stubSetterProfile_R201_cs
}

var _ = ocppj.GenericError
