package main

import (
	"fmt"
	"net"
	"net/http"
	"strings"
	"sync"
	"time"

	"github.com/gorilla/websocket"
	"github.com/lorenzodonini/ocpp-go/ws"
)

// H5: the real ws.Server / ws.Client on the loopback interface, driven by raw gorilla peers.

type wsEvent struct {
	kind string // new, disc, msg
	id   string
	data string
	ch   string // identity of the Channel object (one per connection)
}

type srvCtx struct {
	s    ws.Server
	chs  map[ws.Channel]int // identity of every Channel object seen (kept referenced: no address reuse)
	mu   sync.Mutex
	log  []wsEvent
	port int
	// per-event hooks (optional)
	onNew func(ch ws.Channel)
	onMsg func(ch ws.Channel, data []byte)
}

func (c *srvCtx) chid(ch ws.Channel) string {
	c.mu.Lock()
	defer c.mu.Unlock()
	if c.chs == nil {
		c.chs = map[ws.Channel]int{}
	}
	n, ok := c.chs[ch]
	if !ok {
		n = len(c.chs) + 1
		c.chs[ch] = n
	}
	return fmt.Sprintf("#%d", n)
}

func (c *srvCtx) add(e wsEvent) {
	c.mu.Lock()
	c.log = append(c.log, e)
	c.mu.Unlock()
}

func (c *srvCtx) take() []wsEvent {
	c.mu.Lock()
	defer c.mu.Unlock()
	l := c.log
	c.log = nil
	return l
}

func (c *srvCtx) size() int {
	c.mu.Lock()
	defer c.mu.Unlock()
	return len(c.log)
}

// settle waits until the event log did not change for `quiet` (at most `max`)
func (c *srvCtx) settle(quiet, max time.Duration) {
	deadline := time.Now().Add(max)
	last := c.size()
	since := time.Now()
	for time.Now().Before(deadline) {
		time.Sleep(500 * time.Microsecond)
		if n := c.size(); n != last {
			last, since = n, time.Now()
		} else if time.Since(since) >= quiet {
			return
		}
	}
}

// waitFor polls cond (at most max), then lets the log settle
func waitCond(max time.Duration, cond func() bool) bool {
	deadline := time.Now().Add(max)
	for time.Now().Before(deadline) {
		if cond() {
			return true
		}
		time.Sleep(300 * time.Microsecond)
	}
	return cond()
}

type srvOpts struct {
	supported []string
	auth      string // none | handler (accepts u:p)
	check     string // none | true | false | id (accepts ids starting with "ok")
	origin    string // default | allow | deny
	timeouts  *ws.ServerTimeoutConfig
}

func startWsServer(o srvOpts) *srvCtx {
	c := &srvCtx{}
	c.s = buildWsServer(o, c)
	return listenWsServer(o, c)
}

func buildWsServer(o srvOpts, c *srvCtx) ws.Server {
	s := ws.NewServer()
	for _, p := range o.supported {
		s.AddSupportedSubprotocol(p)
	}
	switch o.auth {
	case "handler":
		s.SetBasicAuthHandler(func(u, p string) bool { return u == "u" && p == "p" })
	}
	switch o.check {
	case "true":
		s.SetCheckClientHandler(func(id string, r *http.Request) bool { return true })
	case "false":
		s.SetCheckClientHandler(func(id string, r *http.Request) bool { return false })
	case "id":
		s.SetCheckClientHandler(func(id string, r *http.Request) bool { return strings.HasPrefix(id, "ok") })
	}
	switch o.origin {
	case "allow":
		s.SetCheckOriginHandler(func(r *http.Request) bool { return true })
	case "deny":
		s.SetCheckOriginHandler(func(r *http.Request) bool { return false })
	}
	if o.timeouts != nil {
		s.SetTimeoutConfig(*o.timeouts)
	}
	s.SetNewClientHandler(func(ch ws.Channel) {
		c.add(wsEvent{"new", ch.ID(), "", c.chid(ch)})
		if c.onNew != nil {
			c.onNew(ch)
		}
	})
	s.SetDisconnectedClientHandler(func(ch ws.Channel) { c.add(wsEvent{"disc", ch.ID(), "", c.chid(ch)}) })
	s.SetMessageHandler(func(ch ws.Channel, data []byte) error {
		c.add(wsEvent{"msg", ch.ID(), string(data), c.chid(ch)})
		if c.onMsg != nil {
			c.onMsg(ch, data)
		}
		return nil
	})
	return s
}

func listenWsServer(o srvOpts, c *srvCtx) *srvCtx {
	// a free port chosen here (Addr() is not synchronised with Start: polling it would be a race of the harness's making);
	// another process may grab the port between the probe and Start: try again with a new server object
	for attempt := 0; attempt < 6; attempt++ {
		ln, err := net.Listen("tcp", "127.0.0.1:0")
		if err != nil {
			continue
		}
		c.port = ln.Addr().(*net.TCPAddr).Port
		_ = ln.Close()
		go c.s.Start(c.port, "/{id}")
		ok := waitCond(1500*time.Millisecond, func() bool {
			conn, err := net.DialTimeout("tcp", fmt.Sprintf("127.0.0.1:%d", c.port), 200*time.Millisecond)
			if err != nil {
				return false
			}
			_ = conn.Close()
			return true
		})
		if ok {
			return c
		}
		// not listening (port taken): a fresh server with the same configuration
		c2 := buildWsServer(o, c)
		c.s = c2
	}
	panic("HARNESS: ws server did not start")
}

func (c *srvCtx) url(id string) string { return fmt.Sprintf("ws://127.0.0.1:%d/%s", c.port, id) }

type dialRes struct {
	conn   *websocket.Conn
	status int    // HTTP status when the handshake failed (0: none)
	proto  string // negotiated sub-protocol as seen by the client
	err    error
}

func rawDial(url string, protos []string, hdr http.Header) dialRes {
	d := websocket.Dialer{Subprotocols: protos, HandshakeTimeout: 3 * time.Second}
	conn, resp, err := d.Dial(url, hdr)
	r := dialRes{conn: conn, err: err}
	if resp != nil {
		if err != nil {
			r.status = resp.StatusCode
		}
		r.proto = resp.Header.Get("Sec-Websocket-Protocol")
	}
	return r
}

// readClose waits for the next frame on a raw connection: a close code, "data", or "timeout"
func readClose(conn *websocket.Conn, d time.Duration) string {
	_ = conn.SetReadDeadline(time.Now().Add(d))
	_, _, err := conn.ReadMessage()
	if err == nil {
		return "data"
	}
	if ce, ok := err.(*websocket.CloseError); ok {
		return fmt.Sprintf("close:%d", ce.Code)
	}
	if ne, ok := err.(net.Error); ok && ne.Timeout() {
		return "open"
	}
	return "eof"
}
