package main

import (
	"crypto/tls"
	"fmt"
	"net"
	"net/http"
	"reflect"
	"sync"

	"github.com/gorilla/websocket"
	"github.com/lorenzodonini/ocpp-go/ocpp"
	"github.com/lorenzodonini/ocpp-go/ws"
)

// ---------------------------------------------------------------- fake ws.Client

type fakeClient struct {
	mu        sync.Mutex
	connected bool
	handler   func(data []byte) error
	onDisc    func(err error)
	onRec     func()
	writes    [][]byte
	writeErr  error
	onWrite   func(data []byte) // observation hook (called outside the lock)
	errC      chan error
	onEnter func()
}

func (c *fakeClient) Start(url string) error {
	c.mu.Lock()
	c.connected = true
	c.mu.Unlock()
	return nil
}
func (c *fakeClient) StartWithRetries(url string) { _ = c.Start(url) }
func (c *fakeClient) Stop() {
	c.mu.Lock()
	was := c.connected
	c.connected = false
	h := c.onDisc
	c.mu.Unlock()
	if was && h != nil {
		go h(nil)
	}
}
func (c *fakeClient) Errors() <-chan error {
	if c.errC == nil {
		c.errC = make(chan error, 8)
	}
	return c.errC
}
func (c *fakeClient) SetMessageHandler(h func(data []byte) error) { c.handler = h }
func (c *fakeClient) SetTimeoutConfig(config ws.ClientTimeoutConfig) {}
func (c *fakeClient) SetDisconnectedHandler(h func(err error)) {
	c.mu.Lock()
	c.onDisc = h
	c.mu.Unlock()
}
func (c *fakeClient) SetReconnectedHandler(h func()) { c.onRec = h }
func (c *fakeClient) IsConnected() bool {
	c.mu.Lock()
	defer c.mu.Unlock()
	return c.connected
}
func (c *fakeClient) Write(data []byte) error {
	if h := c.onEnter; h != nil {
		h() // the write has started (gate): the connection may drop before it completes
	}
	c.mu.Lock()
	if !c.connected {
		c.mu.Unlock()
		return fmt.Errorf("client is currently not connected, cannot send data")
	}
	if c.writeErr != nil {
		e := c.writeErr
		c.mu.Unlock()
		return e
	}
	cp := append([]byte{}, data...)
	c.writes = append(c.writes, cp)
	h := c.onWrite
	c.mu.Unlock()
	if h != nil {
		h(cp)
	}
	return nil
}
func (c *fakeClient) AddOption(option interface{})                  {}
func (c *fakeClient) SetRequestedSubProtocol(subProto string)       {}
func (c *fakeClient) SetBasicAuth(username string, password string) {}
func (c *fakeClient) SetHeaderValue(key string, value string)       {}

// environment events
func (c *fakeClient) drop(err error) { // connection lost
	c.mu.Lock()
	c.connected = false
	h := c.onDisc
	c.mu.Unlock()
	if h != nil {
		h(err)
	}
}
func (c *fakeClient) reconnect() {
	c.mu.Lock()
	c.connected = true
	c.mu.Unlock()
	if c.onRec != nil {
		c.onRec()
	}
}
func (c *fakeClient) deliver(data []byte) error { return c.handler(data) }
func (c *fakeClient) setWriteErr(e error) {
	c.mu.Lock()
	c.writeErr = e
	c.mu.Unlock()
}
func (c *fakeClient) takeWrites() [][]byte {
	c.mu.Lock()
	defer c.mu.Unlock()
	w := c.writes
	c.writes = nil
	return w
}

// ---------------------------------------------------------------- fake ws.Server

type fakeChannel struct{ id string }

func (f fakeChannel) ID() string                               { return f.id }
func (f fakeChannel) RemoteAddr() net.Addr                     { return &net.TCPAddr{IP: net.IPv4(127, 0, 0, 1), Port: 1} }
func (f fakeChannel) TLSConnectionState() *tls.ConnectionState { return nil }
func (f fakeChannel) IsConnected() bool                        { return true }

type srvWrite struct {
	client string
	data   []byte
}

type fakeServer struct {
	mu       sync.Mutex
	clients  map[string]bool
	handler  ws.MessageHandler
	onNew    ws.ConnectedHandler
	onDisc   func(ws.Channel)
	writes   []srvWrite
	writeErr map[string]error
	onWrite  func(client string, data []byte)
	stopC    chan struct{}
	errC     chan error
	// per client id: the end of a connection is reported before the next connection of the id is announced
	// (what ws.server guarantees since /repo 3413323)
	linkMu sync.Map
}

func (s *fakeServer) idLock(id string) *sync.Mutex {
	m, _ := s.linkMu.LoadOrStore(id, &sync.Mutex{})
	return m.(*sync.Mutex)
}

func newFakeServer() *fakeServer {
	return &fakeServer{clients: map[string]bool{}, writeErr: map[string]error{}, stopC: make(chan struct{})}
}

func (s *fakeServer) Start(port int, listenPath string) { <-s.stopC } // blocks like the real one
func (s *fakeServer) Stop() {
	s.mu.Lock()
	select {
	case <-s.stopC:
	default:
		close(s.stopC)
	}
	var ids []string
	for id := range s.clients {
		ids = append(ids, id)
	}
	s.clients = map[string]bool{}
	h := s.onDisc
	s.mu.Unlock()
	for _, id := range ids {
		if h != nil {
			h(fakeChannel{id})
		}
	}
}
func (s *fakeServer) StopConnection(id string, closeError websocket.CloseError) error {
	s.disconnect(id)
	return nil
}
func (s *fakeServer) Errors() <-chan error {
	if s.errC == nil {
		s.errC = make(chan error, 8)
	}
	return s.errC
}
func (s *fakeServer) SetMessageHandler(h ws.MessageHandler)                 { s.handler = h }
func (s *fakeServer) SetNewClientHandler(h ws.ConnectedHandler)             { s.onNew = h }
func (s *fakeServer) SetDisconnectedClientHandler(h func(ws ws.Channel))    { s.onDisc = h }
func (s *fakeServer) SetTimeoutConfig(config ws.ServerTimeoutConfig)        {}
func (s *fakeServer) AddSupportedSubprotocol(subProto string)               {}
func (s *fakeServer) SetBasicAuthHandler(h func(u string, p string) bool)   {}
func (s *fakeServer) SetCheckOriginHandler(h func(r *http.Request) bool)    {}
func (s *fakeServer) SetCheckClientHandler(h ws.CheckClientHandler)         {}
func (s *fakeServer) Addr() *net.TCPAddr                                    { return nil }
func (s *fakeServer) GetChannel(id string) (ws.Channel, bool) {
	s.mu.Lock()
	defer s.mu.Unlock()
	if s.clients[id] {
		return fakeChannel{id}, true
	}
	return nil, false
}
func (s *fakeServer) Write(id string, data []byte) error {
	s.mu.Lock()
	if !s.clients[id] {
		s.mu.Unlock()
		return fmt.Errorf("couldn't write to websocket. No socket with id %v is open", id)
	}
	if e := s.writeErr[id]; e != nil {
		s.mu.Unlock()
		return e
	}
	cp := append([]byte{}, data...)
	s.writes = append(s.writes, srvWrite{id, cp})
	h := s.onWrite
	s.mu.Unlock()
	if h != nil {
		h(id, cp)
	}
	return nil
}

// environment events
func (s *fakeServer) connect(id string) {
	lm := s.idLock(id)
	lm.Lock()
	defer lm.Unlock()
	s.mu.Lock()
	s.clients[id] = true
	h := s.onNew
	s.mu.Unlock()
	if h != nil {
		h(fakeChannel{id})
	}
}
// connectFresh announces a connection only if the id is not connected (the real server refuses a duplicate)
func (s *fakeServer) connectFresh(id string) bool {
	lm := s.idLock(id)
	lm.Lock()
	defer lm.Unlock()
	s.mu.Lock()
	if s.clients[id] {
		s.mu.Unlock()
		return false
	}
	s.clients[id] = true
	h := s.onNew
	s.mu.Unlock()
	if h != nil {
		h(fakeChannel{id})
	}
	return true
}
func (s *fakeServer) isConnected(id string) bool {
	s.mu.Lock()
	defer s.mu.Unlock()
	return s.clients[id]
}
func (s *fakeServer) disconnect(id string) {
	lm := s.idLock(id)
	lm.Lock()
	defer lm.Unlock()
	s.mu.Lock()
	was := s.clients[id]
	delete(s.clients, id)
	h := s.onDisc
	s.mu.Unlock()
	if was && h != nil {
		h(fakeChannel{id})
	}
}
func (s *fakeServer) deliver(id string, data []byte) error { return s.handler(fakeChannel{id}, data) }
func (s *fakeServer) setWriteErr(id string, e error) {
	s.mu.Lock()
	s.writeErr[id] = e
	s.mu.Unlock()
}
func (s *fakeServer) takeWrites() []srvWrite {
	s.mu.Lock()
	defer s.mu.Unlock()
	w := s.writes
	s.writes = nil
	return w
}

// ---------------------------------------------------------------- stub hub: scripted handler outcomes

type handlerCall struct {
	Role    string
	Client  string
	Method  string
	ReqType string
	Request interface{}
}

type outcome struct {
	kind string // valid | invalid | nil | error | ocpperror | ocpperror-badcode
	code string
}

type stubHub struct {
	mu      sync.Mutex
	calls   []handlerCall
	script  func(c handlerCall, respType reflect.Type) (interface{}, error)
	onCall  func(c handlerCall) // gate / observation (runs on the calling goroutine)
}

func (h *stubHub) call(role, client, method string, req interface{}, respPtrType reflect.Type) (interface{}, error) {
	c := handlerCall{Role: role, Client: client, Method: method, ReqType: reflect.TypeOf(req).String(), Request: req}
	h.mu.Lock()
	h.calls = append(h.calls, c)
	s := h.script
	g := h.onCall
	h.mu.Unlock()
	if g != nil {
		g(c)
	}
	if s == nil {
		return nil, ocpp.NewHandlerError("NotSupported", "no script")
	}
	return s(c, respPtrType)
}

func (h *stubHub) takeCalls() []handlerCall {
	h.mu.Lock()
	defer h.mu.Unlock()
	c := h.calls
	h.calls = nil
	return c
}
