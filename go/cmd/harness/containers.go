package main

import (
	"fmt"
	"math/rand"
	"strconv"
	"strings"

	"github.com/lorenzodonini/ocpp-go/ocpp"
	"github.com/lorenzodonini/ocpp-go/ocppj"
	"github.com/lorenzodonini/ocpp-go/verifhooks"
)

// H1: sequential differential harness for the L1 containers.

type tagReq string

func (t tagReq) GetFeatureName() string { return string(t) }

type containers struct{}

func init() { suites["containers"] = containers{} }

func (containers) Gen(r *rand.Rand, sessions int) []string {
	var out []string
	caps := []string{"-1", "0", "1", "2", "3", "10"}
	ids := []string{"a", "b", "c", "\"\""}
	cl := []string{"A", "B", "C"}
	for s := 0; s < sessions; s++ {
		out = append(out, "reset")
		n := 5 + r.Intn(40)
		switch r.Intn(5) {
		case 0: // queue
			out = append(out, "q new "+pick(r, caps...))
			for i := 0; i < n; i++ {
				switch k := r.Intn(12); {
				case k < 5:
					out = append(out, fmt.Sprintf("q push %d", r.Intn(100)))
				case k < 8:
					out = append(out, "q pop")
				case k == 8:
					out = append(out, "q peek")
				case k == 9:
					out = append(out, pick(r, "q size", "q isfull", "q isempty"))
				case k == 10 && r.Intn(4) == 0:
					out = append(out, "q init")
				default:
					out = append(out, "q size")
				}
			}
		case 1: // queue map
			out = append(out, "qm new "+pick(r, caps...))
			for i := 0; i < n; i++ {
				c := pick(r, cl...)
				switch k := r.Intn(12); {
				case k < 2:
					out = append(out, "qm goc "+c)
				case k < 5:
					out = append(out, fmt.Sprintf("qm push %s %d", c, r.Intn(100)))
				case k < 7:
					out = append(out, "qm pop "+c)
				case k == 7:
					out = append(out, "qm remove "+c)
				case k == 8:
					out = append(out, "qm add "+c+" "+pick(r, caps...))
				case k == 9 && r.Intn(4) == 0:
					out = append(out, "qm init")
				default:
					out = append(out, "qm get "+c)
				}
			}
		case 2: // client state
			out = append(out, "cs new")
			for i := 0; i < n; i++ {
				id := pick(r, ids...)
				switch k := r.Intn(10); {
				case k < 3:
					out = append(out, fmt.Sprintf("cs add %s r%d", id, r.Intn(50)))
				case k < 5:
					out = append(out, "cs get "+id)
				case k < 7:
					out = append(out, "cs del "+id)
				case k == 7 && r.Intn(3) == 0:
					out = append(out, "cs clear")
				default:
					out = append(out, "cs has")
				}
			}
		case 3: // server state
			out = append(out, "ss new")
			for i := 0; i < n; i++ {
				id := pick(r, ids...)
				c := pick(r, cl...)
				switch k := r.Intn(12); {
				case k < 3:
					out = append(out, fmt.Sprintf("ss add %s %s r%d", c, id, r.Intn(50)))
				case k < 5:
					out = append(out, "ss get "+c+" "+id)
				case k < 7:
					out = append(out, "ss del "+c+" "+id)
				case k == 7:
					out = append(out, "ss clearc "+c)
				case k == 8 && r.Intn(4) == 0:
					out = append(out, "ss clearall")
				case k == 9:
					out = append(out, "ss hasany")
				default:
					out = append(out, "ss has "+c)
				}
			}
		case 4: // callback queue
			out = append(out, "cq new")
			for i := 0; i < n; i++ {
				c := pick(r, cl...)
				switch k := r.Intn(10); {
				case k < 4:
					out = append(out, fmt.Sprintf("cq try %s ok cb%d", c, r.Intn(100)))
				case k < 6:
					out = append(out, fmt.Sprintf("cq try %s fail cb%d", c, r.Intn(100)))
				default:
					out = append(out, "cq deq "+c)
				}
			}
		}
	}
	return out
}

func unq(s string) string {
	if s == "\"\"" {
		return ""
	}
	return s
}

func elemsOf(q ocppj.RequestQueue) string {
	// observe content non-destructively: pop everything and push it back is not possible on a full
	// bounded queue without changing it, so we observe size + head only.
	h := q.Peek()
	hs := "nil"
	if h != nil {
		hs = fmt.Sprint(h)
	}
	return fmt.Sprintf("size=%d,head=%s,full=%v", q.Size(), hs, q.IsFull())
}

func (containers) Run(ops []string, emit func(string)) {
	var q *ocppj.FIFOClientQueue
	var qm *ocppj.FIFOQueueMap
	var cs ocppj.ClientState
	var ss ocppj.ServerState
	var cq verifhooks.CallbackQueue
	cbTags := map[string]string{}
	_ = cbTags
	for _, l := range ops {
		f := fields(l)
		if len(f) == 0 {
			emit("bad-op")
			continue
		}
		emit(guard(func() string {
			switch f[0] {
			case "reset":
				q, qm, cs, ss = nil, nil, nil, nil
				return "ok"
			case "q":
				switch f[1] {
				case "new":
					c, _ := strconv.Atoi(f[2])
					if c < 0 {
						// make([]T,0,negative) panics in Go: NewFIFOClientQueue(-1) is rejected by the runtime
						q = ocppj.NewFIFOClientQueue(0) // fallback object for the ops that follow
						return guard(func() string { q = ocppj.NewFIFOClientQueue(c); return "ok" })
					}
					q = ocppj.NewFIFOClientQueue(c)
					return "ok"
				case "init":
					q.Init()
					return "ok"
				case "push":
					if err := q.Push(f[2]); err != nil {
						return "full"
					}
					return "ok"
				case "peek":
					if v := q.Peek(); v != nil {
						return fmt.Sprint(v)
					}
					return "nil"
				case "pop":
					if v := q.Pop(); v != nil {
						return fmt.Sprint(v)
					}
					return "nil"
				case "size":
					return strconv.Itoa(q.Size())
				case "isfull":
					return strconv.FormatBool(q.IsFull())
				case "isempty":
					return strconv.FormatBool(q.IsEmpty())
				}
			case "qm":
				switch f[1] {
				case "new":
					c, _ := strconv.Atoi(f[2])
					qm = ocppj.NewFIFOQueueMap(c)
					return "ok"
				case "init":
					qm.Init()
					return "ok"
				case "get":
					if x, ok := qm.Get(f[2]); ok {
						return elemsOf(x)
					}
					return "absent"
				case "goc":
					return elemsOf(qm.GetOrCreate(f[2]))
				case "remove":
					qm.Remove(f[2])
					return "ok"
				case "add":
					c, _ := strconv.Atoi(f[3])
					if c < 0 {
						c = 0
					}
					qm.Add(f[2], ocppj.NewFIFOClientQueue(c))
					return "ok"
				case "push":
					x, ok := qm.Get(f[2])
					if !ok {
						return "absent"
					}
					if err := x.Push(f[3]); err != nil {
						return "full"
					}
					return "ok"
				case "pop":
					x, ok := qm.Get(f[2])
					if !ok {
						return "absent"
					}
					if v := x.Pop(); v != nil {
						return fmt.Sprint(v)
					}
					return "nil"
				}
			case "cs":
				switch f[1] {
				case "new":
					cs = ocppj.NewClientState()
					return "ok"
				case "add":
					cs.AddPendingRequest(unq(f[2]), tagReq(f[3]))
					return "ok"
				case "get":
					if r, ok := cs.GetPendingRequest(unq(f[2])); ok {
						return reqTag(r)
					}
					return "miss"
				case "del":
					cs.DeletePendingRequest(unq(f[2]))
					return "ok"
				case "clear":
					cs.ClearPendingRequests()
					return "ok"
				case "has":
					return strconv.FormatBool(cs.HasPendingRequest())
				}
			case "ss":
				switch f[1] {
				case "new":
					ss = ocppj.NewServerState(nil)
					return "ok"
				case "add":
					ss.AddPendingRequest(f[2], unq(f[3]), tagReq(f[4]))
					return "ok"
				case "del":
					ss.DeletePendingRequest(f[2], unq(f[3]))
					return "ok"
				case "get":
					if r, ok := ss.GetClientState(f[2]).GetPendingRequest(unq(f[3])); ok {
						return reqTag(r)
					}
					return "miss"
				case "has":
					return strconv.FormatBool(ss.HasPendingRequest(f[2]))
				case "hasany":
					return strconv.FormatBool(ss.HasPendingRequests())
				case "clearc":
					ss.ClearClientPendingRequest(f[2])
					return "ok"
				case "clearall":
					ss.ClearAllPendingRequests()
					return "ok"
				}
			case "cq":
				switch f[1] {
				case "new":
					cq = verifhooks.NewCallbackQueue()
					return "ok"
				case "try":
					tag := f[4]
					err := cq.TryQueue(f[2], func() error {
						if f[3] == "ok" {
							return nil
						}
						return fmt.Errorf("try failed")
					}, func(confirmation ocpp.Response, err error) { panic("cb:" + tag) })
					if err != nil {
						return "err"
					}
					return "ok"
				case "deq":
					cb, ok := cq.Dequeue(f[2])
					if !ok {
						return "none"
					}
					// identify the callback by invoking it: it panics with its tag
					return guard(func() (s string) {
						defer func() {
							e := recover()
							s = strings.TrimPrefix(fmt.Sprint(e), "cb:")
						}()
						cb(nil, nil)
						return "?"
					})
				}
			}
			return "bad-op"
		}))
	}
}

func reqTag(r ocpp.Request) string {
	if r == nil {
		return "nilreq"
	}
	return r.GetFeatureName()
}
