package main

import (
	"encoding/json"
	"fmt"
	"math/rand"
	"sync"
	"time"

	"github.com/lorenzodonini/ocpp-go/ocpp"
	core16 "github.com/lorenzodonini/ocpp-go/ocpp1.6/core"
	data201 "github.com/lorenzodonini/ocpp-go/ocpp2.0.1/data"
	"github.com/lorenzodonini/ocpp-go/ocppj"
)

// Monitor c01_tryqueue (C01 clause "delivered to the callback supplied with that request", search on the implementation):
// two application goroutines call SendRequestAsync on one protocol endpoint (charge point / charging station) at the same
// time; the first one's queue Push is stalled (gated RequestQueue), so the two calls overlap inside the callback queue's
// TryQueue. Each request carries its own vendor id, the peer echoes it in the response: every callback must receive the
// answer to its own request.

func init() {
	rounds["c01_tryqueue"] = func(seed int64, i int) roundResult {
		var res roundResult
		ver := []string{"R16", "R201"}[i%2]
		l := &slog{r: rand.New(rand.NewSource(seed)), directed: true, stallSite: "queue.Push<", stallIdx: 1 + (i/2)%2, stallDur: 15 * time.Millisecond}
		q := &gQueue{q: ocppj.NewFIFOClientQueue(0), l: l, client: ""}
		e := newEndpoint(ver, "cp", epOpts{timeout: 5 * time.Second, clientQueue: q})
		e.fc.onWrite = func(data []byte) {
			fr, err := parseFrame(data)
			if err != nil || fr.Type != 2 {
				return
			}
			var p struct {
				VendorID string `json:"vendorId"`
			}
			_ = json.Unmarshal(fr.Payload, &p)
			go func() {
				time.Sleep(time.Millisecond)
				_ = e.fc.deliver([]byte(fmt.Sprintf(`[3,"%s",{"status":"Accepted","data":"%s"}]`, fr.ID, p.VendorID)))
			}()
		}
		mkReq := func(v string) ocpp.Request {
			if ver == "R201" {
				return data201.NewDataTransferRequest(v)
			}
			return core16.NewDataTransferRequest(v)
		}
		var mu sync.Mutex
		got := map[string]string{}
		var wg sync.WaitGroup
		n := 3
		for k := 0; k < n; k++ {
			v := fmt.Sprintf("v%d", k)
			wg.Add(1)
			go func(k int, v string) {
				defer wg.Done()
				time.Sleep(time.Duration(k) * 2 * time.Millisecond)
				err := e.sendAsync("", mkReq(v), func(r ocpp.Response, err error) {
					d := "?"
					if err != nil {
						d = "error:" + err.Error()
					} else {
						switch x := r.(type) {
						case *core16.DataTransferConfirmation:
							d = fmt.Sprint(x.Data)
						case *data201.DataTransferResponse:
							d = fmt.Sprint(x.Data)
						}
					}
					mu.Lock()
					got[v] = d
					mu.Unlock()
				})
				if err != nil {
					mu.Lock()
					got[v] = "send-error:" + err.Error()
					mu.Unlock()
				}
			}(k, v)
		}
		wg.Wait()
		waitCond(3*time.Second, func() bool { mu.Lock(); defer mu.Unlock(); return len(got) == n })
		mu.Lock()
		defer mu.Unlock()
		res.Events = len(got)
		for k := 0; k < n; k++ {
			v := fmt.Sprintf("v%d", k)
			if got[v] != v {
				res.Violations = append(res.Violations, Violation{Property: "C01", Sig: "callback-of-another-request:" + ver, What: fmt.Sprintf("%s charge point: %d concurrent SendRequestAsync calls (the queue Push of call #%d stalled 15 ms): the callback passed with request %s received %q; all: %v", ver, n, l.stallIdx, v, got[v], got),
					Replay: map[string]interface{}{"version": ver, "stalled_push": l.stallIdx, "received": got}})
				break
			}
		}
		func() {
			defer func() { _ = recover() }()
			e.stop()
		}()
		return res
	}
	monitors["c01_tryqueue"] = func(seed int64, tier string) interface{} {
		n := 8
		if tier == "thorough" {
			n = 40
		}
		rep := &Report{Monitor: "c01_tryqueue", Rule: "rounds in their own process: 3 application goroutines call SendRequestAsync on one charge point / charging station 2 ms apart while the Push of the first or second call is stalled 15 ms (gated RequestQueue); requests carry distinct vendor ids echoed by the peer; every callback must receive its own request's answer; distinct = rounds", Stats: map[string]interface{}{}}
		seen := map[string]bool{}
		for _, r := range runRounds("c01_tryqueue", seed, n, 4) {
			rep.Evaluations++
			if r.Events > 0 {
				rep.Distinct++
			}
			for _, v := range r.Violations {
				if !seen[v.Sig] {
					seen[v.Sig] = true
					rep.Violations = append(rep.Violations, v)
				}
			}
		}
		return rep
	}
}
