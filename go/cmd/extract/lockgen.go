package main

import (
	"bytes"
	"fmt"
	"go/ast"
	"go/token"
	"path/filepath"
	"sort"
	"strings"
)

// T4 lockgen: for every method of the listed files, which fields of the receiver are accessed how (read, write, channel
// send / receive / close, method call through the field) and which of the receiver's locks are held at that point
// (syntactic lock-set: X.Lock / X.RLock ... X.Unlock / X.RUnlock in statement order, `defer X.Unlock()` holds to the end,
// a block that ends in return / continue / break does not change the lock-set of what follows; function literals are
// separate goroutine bodies with an empty lock-set). Output: OcppGen/Locks.lean (a table) + gen/locks.txt (readable).

var lockFiles = []string{
	"ocppj/dispatcher.go", "ocppj/client.go", "ocppj/server.go", "ocppj/state.go", "ocppj/queue.go",
	"internal/callbackqueue/callbackqueue.go", "ws/websocket.go", "ws/server.go", "ws/client.go",
}

type access struct {
	Type, Field, Func, Kind string
	Locks                  []string // "mutex:W", "mutex:R"
}

type lockWalker struct {
	recv  string
	typ   string
	fn    string
	held  map[string]string // lock field -> mode
	rows  *[]access
	depth int
}

func (w *lockWalker) locks() []string {
	var l []string
	for k, m := range w.held {
		l = append(l, k+":"+m)
	}
	sort.Strings(l)
	return l
}

func (w *lockWalker) add(field, kind string) {
	*w.rows = append(*w.rows, access{w.typ, field, w.fn, kind, w.locks()})
}

// recvField returns f for an expression of the form <recv>.f
func (w *lockWalker) recvField(e ast.Expr) (string, bool) {
	se, ok := e.(*ast.SelectorExpr)
	if !ok {
		return "", false
	}
	id, ok := se.X.(*ast.Ident)
	if !ok || id.Name != w.recv {
		return "", false
	}
	return se.Sel.Name, true
}

// lockOp recognises <recv>.<lock>.Lock() etc.
func (w *lockWalker) lockOp(call *ast.CallExpr) (lock, op string, ok bool) {
	se, ok2 := call.Fun.(*ast.SelectorExpr)
	if !ok2 {
		return
	}
	switch se.Sel.Name {
	case "Lock", "RLock", "Unlock", "RUnlock":
	default:
		return
	}
	f, ok3 := w.recvField(se.X)
	if !ok3 {
		return
	}
	return f, se.Sel.Name, true
}

func (w *lockWalker) expr(e ast.Expr) {
	if e == nil {
		return
	}
	switch x := e.(type) {
	case *ast.FuncLit:
		// another goroutine / a callback: its own lock-set
		sub := &lockWalker{recv: w.recv, typ: w.typ, fn: w.fn + ".func", held: map[string]string{}, rows: w.rows}
		sub.block(x.Body.List)
		return
	case *ast.UnaryExpr:
		if x.Op == token.ARROW {
			if f, ok := w.recvField(x.X); ok {
				w.add(f, "recv")
				return
			}
		}
		w.expr(x.X)
		return
	case *ast.CallExpr:
		if lock, op, ok := w.lockOp(x); ok {
			switch op {
			case "Lock":
				w.held[lock] = "W"
			case "RLock":
				w.held[lock] = "R"
			default:
				delete(w.held, lock)
			}
			return
		}
		if id, ok := x.Fun.(*ast.Ident); ok && (id.Name == "close" || id.Name == "delete") && len(x.Args) > 0 {
			if f, ok := w.recvField(x.Args[0]); ok {
				w.add(f, map[string]string{"close": "close", "delete": "w"}[id.Name])
				for _, a := range x.Args[1:] {
					w.expr(a)
				}
				return
			}
		}
		// method call through a field: <recv>.f.M(...); call of another method of the receiver: <recv>.M(...)
		if se, ok := x.Fun.(*ast.SelectorExpr); ok {
			if f, ok := w.recvField(se.X); ok {
				w.add(f, "call:"+se.Sel.Name)
			} else if id, ok := se.X.(*ast.Ident); ok && id.Name == w.recv {
				w.add("<self>", "self:"+se.Sel.Name)
			} else {
				w.expr(se.X)
			}
		} else {
			w.expr(x.Fun)
		}
		for _, a := range x.Args {
			w.expr(a)
		}
		return
	case *ast.SelectorExpr:
		if f, ok := w.recvField(x); ok {
			w.add(f, "r")
			return
		}
		w.expr(x.X)
		return
	case *ast.IndexExpr:
		w.expr(x.X)
		w.expr(x.Index)
		return
	case *ast.BinaryExpr:
		w.expr(x.X)
		w.expr(x.Y)
		return
	case *ast.ParenExpr:
		w.expr(x.X)
	case *ast.StarExpr:
		w.expr(x.X)
	case *ast.TypeAssertExpr:
		w.expr(x.X)
	case *ast.CompositeLit:
		for _, el := range x.Elts {
			w.expr(el)
		}
	case *ast.KeyValueExpr:
		w.expr(x.Value)
	case *ast.SliceExpr:
		w.expr(x.X)
		w.expr(x.Low)
		w.expr(x.High)
	}
}

func (w *lockWalker) lhs(e ast.Expr) {
	if f, ok := w.recvField(e); ok {
		w.add(f, "w")
		return
	}
	if ix, ok := e.(*ast.IndexExpr); ok {
		if f, ok := w.recvField(ix.X); ok {
			w.add(f, "w") // element write through the field (map / slice)
			w.expr(ix.Index)
			return
		}
	}
	w.expr(e)
}

func terminates(list []ast.Stmt) bool {
	if len(list) == 0 {
		return false
	}
	switch s := list[len(list)-1].(type) {
	case *ast.ReturnStmt:
		return true
	case *ast.BranchStmt:
		return s.Tok == token.CONTINUE || s.Tok == token.BREAK || s.Tok == token.GOTO
	}
	return false
}

func (w *lockWalker) sub(list []ast.Stmt) {
	saved := map[string]string{}
	for k, v := range w.held {
		saved[k] = v
	}
	w.block(list)
	if terminates(list) {
		w.held = saved
	}
}

func (w *lockWalker) block(list []ast.Stmt) {
	for _, st := range list {
		w.stmt(st)
	}
}

func (w *lockWalker) stmt(st ast.Stmt) {
	switch s := st.(type) {
	case *ast.ExprStmt:
		w.expr(s.X)
	case *ast.AssignStmt:
		for _, r := range s.Rhs {
			w.expr(r)
		}
		for _, l := range s.Lhs {
			w.lhs(l)
		}
	case *ast.IncDecStmt:
		w.lhs(s.X)
	case *ast.SendStmt:
		w.expr(s.Value)
		if f, ok := w.recvField(s.Chan); ok {
			w.add(f, "send")
		} else {
			w.expr(s.Chan)
		}
	case *ast.DeferStmt:
		if _, op, ok := w.lockOp(s.Call); ok && (op == "Unlock" || op == "RUnlock") {
			return // held until the function returns
		}
		w.expr(s.Call)
	case *ast.GoStmt:
		if fl, ok := s.Call.Fun.(*ast.FuncLit); ok {
			for _, a := range s.Call.Args {
				w.expr(a)
			}
			w.expr(fl)
			return
		}
		// go <recv>.method(): runs without the caller's locks
		w.expr(s.Call)
	case *ast.ReturnStmt:
		for _, r := range s.Results {
			w.expr(r)
		}
	case *ast.IfStmt:
		if s.Init != nil {
			w.stmt(s.Init)
		}
		w.expr(s.Cond)
		w.sub(s.Body.List)
		if s.Else != nil {
			switch e := s.Else.(type) {
			case *ast.BlockStmt:
				w.sub(e.List)
			default:
				w.stmt(e)
			}
		}
	case *ast.ForStmt:
		if s.Init != nil {
			w.stmt(s.Init)
		}
		w.expr(s.Cond)
		w.sub(s.Body.List)
		if s.Post != nil {
			w.stmt(s.Post)
		}
	case *ast.RangeStmt:
		w.expr(s.X)
		w.sub(s.Body.List)
	case *ast.BlockStmt:
		w.sub(s.List)
	case *ast.SwitchStmt:
		if s.Init != nil {
			w.stmt(s.Init)
		}
		w.expr(s.Tag)
		for _, c := range s.Body.List {
			cc := c.(*ast.CaseClause)
			for _, e := range cc.List {
				w.expr(e)
			}
			w.sub(cc.Body)
		}
	case *ast.TypeSwitchStmt:
		for _, c := range s.Body.List {
			w.sub(c.(*ast.CaseClause).Body)
		}
	case *ast.SelectStmt:
		for _, c := range s.Body.List {
			cc := c.(*ast.CommClause)
			if cc.Comm != nil {
				w.stmt(cc.Comm)
			}
			w.sub(cc.Body)
		}
	case *ast.DeclStmt:
		if gd, ok := s.Decl.(*ast.GenDecl); ok {
			for _, sp := range gd.Specs {
				if vs, ok := sp.(*ast.ValueSpec); ok {
					for _, v := range vs.Values {
						w.expr(v)
					}
				}
			}
		}
	case *ast.LabeledStmt:
		w.stmt(s.Stmt)
	}
}

func lockgen() ([]access, string) {
	var rows []access
	for _, rel := range lockFiles {
		fileCache = map[string]*ast.File{}
		f := parseFile(rel)
		if f == nil {
			continue
		}
		for _, d := range f.Decls {
			fd, ok := d.(*ast.FuncDecl)
			if !ok || fd.Recv == nil || fd.Body == nil || len(fd.Recv.List) == 0 || len(fd.Recv.List[0].Names) == 0 {
				continue
			}
			rt := fd.Recv.List[0].Type
			if st, ok := rt.(*ast.StarExpr); ok {
				rt = st.X
			}
			id, ok := rt.(*ast.Ident)
			if !ok {
				continue
			}
			pkg := filepath.Base(filepath.Dir(rel))
			w := &lockWalker{recv: fd.Recv.List[0].Names[0].Name, typ: pkg + "." + id.Name, fn: fd.Name.Name, held: map[string]string{}, rows: &rows}
			w.block(fd.Body.List)
		}
	}
	// unique rows
	seen := map[string]bool{}
	var uniq []access
	for _, r := range rows {
		k := r.Type + "|" + r.Field + "|" + r.Func + "|" + r.Kind + "|" + strings.Join(r.Locks, ",")
		if !seen[k] {
			seen[k] = true
			uniq = append(uniq, r)
		}
	}
	sort.Slice(uniq, func(i, j int) bool {
		a, b := uniq[i], uniq[j]
		if a.Type != b.Type {
			return a.Type < b.Type
		}
		if a.Field != b.Field {
			return a.Field < b.Field
		}
		if a.Func != b.Func {
			return a.Func < b.Func
		}
		if a.Kind != b.Kind {
			return a.Kind < b.Kind
		}
		return strings.Join(a.Locks, ",") < strings.Join(b.Locks, ",")
	})
	var txt bytes.Buffer
	for _, r := range uniq {
		fmt.Fprintf(&txt, "%-42s %-22s %-28s %-16s %s\n", r.Type, r.Field, r.Func, r.Kind, strings.Join(r.Locks, ","))
	}
	return uniq, txt.String()
}

func lockLean(rows []access) []byte {
	var b bytes.Buffer
	b.WriteString("/-\n  REGENERATED by /verif/go/cmd/extract (translator T4 `lockgen`): which receiver fields every method of the\n  concurrency-relevant files accesses, how, and under which of the receiver's locks. Do not edit.\n-/\nnamespace Gen.Locks\n\n")
	b.WriteString("structure Row where\n  ty : String\n  field : String\n  fn : String\n  kind : String\n  locks : List String\nderiving Repr, DecidableEq\n\n")
	b.WriteString("def rows : List Row := [\n")
	for i, r := range rows {
		var ls []string
		for _, l := range r.Locks {
			ls = append(ls, fmt.Sprintf("%q", l))
		}
		fmt.Fprintf(&b, "  ⟨%q, %q, %q, %q, [%s]⟩", r.Type, r.Field, r.Func, r.Kind, strings.Join(ls, ", "))
		if i+1 < len(rows) {
			b.WriteString(",")
		}
		b.WriteString("\n")
	}
	b.WriteString("]\n\nend Gen.Locks\n")
	return b.Bytes()
}
