// Command extract regenerates the Lean modules under lean/OcppGen from /repo's working tree.
//
//	T2 exprgen : small pure Go functions / guards  -> Lean definitions (Guards.lean)
//	T3 skelgen : normalised statement skeletons of the hand-modelled functions -> fingerprints (Skeletons.lean)
//	             + constants (channel capacities, default timeouts, ...)       -> Constants.lean
//
// It uses go/ast only (it does not link the repository), fails closed on unsupported syntax, and
// writes a facts.json next to the Lean files describing what it saw.
package main

import (
	"bytes"
	"encoding/json"
	"flag"
	"fmt"
	"go/ast"
	"go/parser"
	"go/printer"
	"go/token"
	"hash/fnv"
	"os"
	"path/filepath"
	"sort"
	"strconv"
	"strings"
)

var repo = flag.String("repo", "/repo", "repository root")
var out = flag.String("out", "/verif/lean/OcppGen", "output directory for generated Lean")
var skelOut = flag.String("skel", "/verif/gen/skeletons", "output directory for readable skeleton texts")

type failure struct {
	What string `json:"what"`
	Why  string `json:"why"`
}

var failures []failure

func failf(what, format string, a ...interface{}) {
	failures = append(failures, failure{what, fmt.Sprintf(format, a...)})
}

// ---------------------------------------------------------------- parsing helpers

var fset = token.NewFileSet()
var fileCache = map[string]*ast.File{}

func parseFile(rel string) *ast.File {
	if f, ok := fileCache[rel]; ok {
		return f
	}
	f, err := parser.ParseFile(fset, filepath.Join(*repo, rel), nil, 0)
	if err != nil {
		failf(rel, "parse error: %v", err)
		fileCache[rel] = nil
		return nil
	}
	fileCache[rel] = f
	return f
}

func recvTypeName(fd *ast.FuncDecl) string {
	if fd.Recv == nil || len(fd.Recv.List) == 0 {
		return ""
	}
	t := fd.Recv.List[0].Type
	if s, ok := t.(*ast.StarExpr); ok {
		t = s.X
	}
	if id, ok := t.(*ast.Ident); ok {
		return id.Name
	}
	return ""
}

func findFunc(rel, recv, name string) *ast.FuncDecl {
	f := parseFile(rel)
	if f == nil {
		return nil
	}
	for _, d := range f.Decls {
		if fd, ok := d.(*ast.FuncDecl); ok && fd.Name.Name == name && recvTypeName(fd) == recv {
			return fd
		}
	}
	return nil
}

func src(n ast.Node) string {
	var b bytes.Buffer
	_ = printer.Fprint(&b, fset, n)
	return b.String()
}

// ---------------------------------------------------------------- T2: expression translator

type target struct {
	File   string
	Recv   string
	Func   string
	Lean   string            // Lean definition name
	Params string            // Lean binder text, e.g. "(len cap : Int)"
	Ret    string            // Lean return type
	Mode   string            // "func" | "ifcond:<n>" (condition of the n-th top-level if) | "closure:<name>"
	Leaves map[string]string // Go expression text -> Lean expression text
	Lists  map[string]string // Go identifiers that denote byte slices -> Lean list variable
	RetMap map[string]string // Go return expression text -> Lean text (e.g. "nil" -> "none")
	// SkipAssign lists local definitions ("name := expr" exactly) that are pure renamings of a leaf
	SkipAssign []string
	Doc    string
}

type tr struct {
	t   *target
	err error
}

func (x *tr) fail(n ast.Node, why string) string {
	if x.err == nil {
		x.err = fmt.Errorf("%s: unsupported %s: `%s`", fset.Position(n.Pos()), why, src(n))
	}
	return "sorryUnsupported"
}

func isSkippable(s ast.Stmt) bool {
	// lock operations and logging never influence the value computed
	var call *ast.CallExpr
	switch v := s.(type) {
	case *ast.ExprStmt:
		call, _ = v.X.(*ast.CallExpr)
	case *ast.DeferStmt:
		call = v.Call
	}
	if call == nil {
		return false
	}
	sel, ok := call.Fun.(*ast.SelectorExpr)
	if !ok {
		return false
	}
	switch sel.Sel.Name {
	case "Lock", "Unlock", "RLock", "RUnlock":
		return true
	}
	if id, ok := sel.X.(*ast.Ident); ok && id.Name == "log" {
		return true
	}
	return false
}

func (x *tr) expr(e ast.Expr) string {
	if l, ok := x.t.Leaves[src(e)]; ok {
		return l
	}
	switch v := e.(type) {
	case *ast.ParenExpr:
		return "(" + x.expr(v.X) + ")"
	case *ast.BasicLit:
		switch v.Kind {
		case token.INT:
			n, err := strconv.ParseInt(v.Value, 0, 64)
			if err != nil {
				return x.fail(e, "int literal")
			}
			return fmt.Sprintf("(%d : Int)", n)
		case token.CHAR:
			r, _, _, err := strconv.UnquoteChar(v.Value[1:len(v.Value)-1], '\'')
			if err != nil {
				return x.fail(e, "char literal")
			}
			return fmt.Sprintf("(%d : Int)", r)
		case token.STRING:
			s, err := strconv.Unquote(v.Value)
			if err != nil {
				return x.fail(e, "string literal")
			}
			return strconv.Quote(s)
		}
		return x.fail(e, "literal")
	case *ast.Ident:
		switch v.Name {
		case "true", "false":
			return v.Name
		}
		if sv, ok := findStringConst(x.t.File, v.Name); ok {
			return strconv.Quote(sv)
		}
		return x.fail(e, "identifier (not in the leaf table)")
	case *ast.UnaryExpr:
		switch v.Op {
		case token.NOT:
			return "(!" + x.expr(v.X) + ")"
		case token.SUB:
			return "(-" + x.expr(v.X) + ")"
		}
		return x.fail(e, "unary operator")
	case *ast.BinaryExpr:
		a, b := x.expr(v.X), x.expr(v.Y)
		switch v.Op {
		case token.LAND:
			return "(" + a + " && " + b + ")"
		case token.LOR:
			return "(" + a + " || " + b + ")"
		case token.EQL:
			return "(" + a + " == " + b + ")"
		case token.NEQ:
			return "(" + a + " != " + b + ")"
		case token.LSS:
			return "(decide (" + a + " < " + b + "))"
		case token.LEQ:
			return "(decide (" + a + " ≤ " + b + "))"
		case token.GTR:
			return "(decide (" + a + " > " + b + "))"
		case token.GEQ:
			return "(decide (" + a + " ≥ " + b + "))"
		case token.ADD:
			return "(" + a + " + " + b + ")"
		case token.SUB:
			return "(" + a + " - " + b + ")"
		case token.MUL:
			return "(" + a + " * " + b + ")"
		}
		return x.fail(e, "binary operator")
	case *ast.IndexExpr:
		if id, ok := v.X.(*ast.Ident); ok {
			if l, ok := x.t.Lists[id.Name]; ok {
				return "(Gen.idx " + l + " " + x.expr(v.Index) + ")"
			}
		}
		return x.fail(e, "index expression")
	case *ast.CallExpr:
		if id, ok := v.Fun.(*ast.Ident); ok && id.Name == "len" && len(v.Args) == 1 {
			if a, ok := v.Args[0].(*ast.Ident); ok {
				if l, ok := x.t.Lists[a.Name]; ok {
					return "(" + l + ".length : Int)"
				}
			}
		}
		return x.fail(e, "call")
	}
	return x.fail(e, "expression")
}

func (x *tr) skipAssign(s ast.Stmt) bool {
	a, ok := s.(*ast.AssignStmt)
	if !ok || len(a.Lhs) != 1 {
		return false
	}
	id, ok := a.Lhs[0].(*ast.Ident)
	if !ok {
		return false
	}
	for _, n := range x.t.SkipAssign {
		if n == id.Name+" := "+src(a.Rhs[0]) {
			return true
		}
	}
	return false
}

func findStringConst(rel, name string) (string, bool) {
	f := parseFile(rel)
	if f == nil {
		return "", false
	}
	for _, d := range f.Decls {
		gd, ok := d.(*ast.GenDecl)
		if !ok || gd.Tok != token.CONST {
			continue
		}
		for _, s := range gd.Specs {
			vs := s.(*ast.ValueSpec)
			for i, n := range vs.Names {
				if n.Name == name && i < len(vs.Values) {
					if bl, ok := vs.Values[i].(*ast.BasicLit); ok && bl.Kind == token.STRING {
						v, err := strconv.Unquote(bl.Value)
						return v, err == nil
					}
				}
			}
		}
	}
	return "", false
}

func (x *tr) ret(e ast.Expr) string {
	if l, ok := x.t.RetMap[src(e)]; ok {
		return l
	}
	if c, ok := e.(*ast.CallExpr); ok {
		key := "call:" + src(c.Fun)
		if len(c.Args) > 1 {
			if l, ok := x.t.RetMap[key+":"+src(c.Args[1])]; ok {
				return l
			}
		}
		if l, ok := x.t.RetMap[key]; ok {
			return l
		}
	}
	if x.t.RetMap != nil {
		if l, ok := x.t.RetMap["*"]; ok { // any other return expression
			return l
		}
	}
	return x.expr(e)
}

// stmts translates an if/switch/return chain to a Lean expression.
func (x *tr) stmts(ss []ast.Stmt) string {
	for len(ss) > 0 && (isSkippable(ss[0]) || x.skipAssign(ss[0])) {
		ss = ss[1:]
	}
	if len(ss) == 0 {
		if l, ok := x.t.RetMap["<fallthrough>"]; ok {
			return l
		}
		if x.err == nil {
			x.err = fmt.Errorf("%s.%s: control reaches end of body without a return", x.t.Recv, x.t.Func)
		}
		return "sorryUnsupported"
	}
	switch v := ss[0].(type) {
	case *ast.ReturnStmt:
		if len(v.Results) != 1 {
			return x.fail(v, "return arity")
		}
		return x.ret(v.Results[0])
	case *ast.IfStmt:
		if v.Init != nil {
			return x.fail(v, "if with init")
		}
		c := x.expr(v.Cond)
		thenS := append(append([]ast.Stmt{}, v.Body.List...), nil...)
		var elseS []ast.Stmt
		if v.Else != nil {
			switch e := v.Else.(type) {
			case *ast.BlockStmt:
				elseS = e.List
			case *ast.IfStmt:
				elseS = []ast.Stmt{e}
			}
		}
		rest := ss[1:]
		// a branch that does not end in return continues with the rest
		th := x.stmts(appendIfOpen(thenS, rest))
		el := x.stmts(appendIfOpen(elseS, rest))
		return "(if " + c + " then " + th + " else " + el + ")"
	case *ast.SwitchStmt:
		if v.Init != nil || v.Tag == nil {
			return x.fail(v, "switch form")
		}
		tag := x.expr(v.Tag)
		rest := ss[1:]
		var def []ast.Stmt
		hasDef := false
		type arm struct {
			cond string
			body []ast.Stmt
		}
		var arms []arm
		for _, c := range v.Body.List {
			cc := c.(*ast.CaseClause)
			if cc.List == nil {
				def, hasDef = cc.Body, true
				continue
			}
			var cs []string
			for _, e := range cc.List {
				cs = append(cs, "("+tag+" == "+x.expr(e)+")")
			}
			arms = append(arms, arm{strings.Join(cs, " || "), cc.Body})
		}
		var tail string
		if hasDef {
			tail = x.stmts(appendIfOpen(def, rest))
		} else {
			tail = x.stmts(rest)
		}
		for i := len(arms) - 1; i >= 0; i-- {
			tail = "(if " + arms[i].cond + " then " + x.stmts(appendIfOpen(arms[i].body, rest)) + " else " + tail + ")"
		}
		return tail
	}
	return x.fail(ss[0], "statement")
}

func endsInReturn(ss []ast.Stmt) bool {
	if len(ss) == 0 {
		return false
	}
	switch v := ss[len(ss)-1].(type) {
	case *ast.ReturnStmt:
		return true
	case *ast.ExprStmt:
		if c, ok := v.X.(*ast.CallExpr); ok {
			if id, ok := c.Fun.(*ast.Ident); ok && id.Name == "panic" {
				return true
			}
		}
	}
	return false
}

func appendIfOpen(body, rest []ast.Stmt) []ast.Stmt {
	if endsInReturn(body) {
		return body
	}
	return append(append([]ast.Stmt{}, body...), rest...)
}

func topLevelIfs(body []ast.Stmt) []*ast.IfStmt {
	var r []*ast.IfStmt
	for _, s := range body {
		if i, ok := s.(*ast.IfStmt); ok {
			r = append(r, i)
		}
	}
	return r
}

func translate(t *target) (string, error) {
	fd := findFunc(t.File, t.Recv, t.Func)
	if fd == nil {
		return "", fmt.Errorf("function %s.%s not found in %s", t.Recv, t.Func, t.File)
	}
	x := &tr{t: t}
	var body string
	switch {
	case t.Mode == "func":
		body = x.stmts(fd.Body.List)
	case strings.HasPrefix(t.Mode, "ifcond:"):
		n, _ := strconv.Atoi(strings.TrimPrefix(t.Mode, "ifcond:"))
		ifs := topLevelIfs(fd.Body.List)
		if n >= len(ifs) {
			return "", fmt.Errorf("%s.%s has %d top-level if statements, wanted #%d", t.Recv, t.Func, len(ifs), n)
		}
		body = x.expr(ifs[n].Cond)
	case t.Mode == "forswitch":
		// body of the first top-level `for ... range` statement, then the statements after it
		var loop *ast.RangeStmt
		var after []ast.Stmt
		for i, st := range fd.Body.List {
			if r, ok := st.(*ast.RangeStmt); ok {
				loop, after = r, fd.Body.List[i+1:]
				break
			}
		}
		if loop == nil {
			return "", fmt.Errorf("%s.%s: no range loop", t.Recv, t.Func)
		}
		_ = after
		body = x.stmts(loop.Body.List)
	case strings.HasPrefix(t.Mode, "return"):
		// the expression of the (single) top-level return statement
		var rs []*ast.ReturnStmt
		for _, s := range fd.Body.List {
			if r, ok := s.(*ast.ReturnStmt); ok {
				rs = append(rs, r)
			}
		}
		if len(rs) != 1 || len(rs[0].Results) != 1 {
			return "", fmt.Errorf("%s.%s: expected exactly one top-level single-value return", t.Recv, t.Func)
		}
		body = x.expr(rs[0].Results[0])
	default:
		return "", fmt.Errorf("unknown mode %q", t.Mode)
	}
	if x.err != nil {
		return "", x.err
	}
	doc := fmt.Sprintf("/-- %s `%s.%s` (%s). %s -/\n", t.File, t.Recv, t.Func, t.Mode, t.Doc)
	return fmt.Sprintf("%sdef %s %s : %s :=\n  %s\n", doc, t.Lean, t.Params, t.Ret, body), nil
}

// ---------------------------------------------------------------- T3: skeletons

type skelTarget struct {
	Name string // Lean identifier
	File string
	Recv string
	Func string
}

// normalise a function body: drop logging, comments (the printer drops free comments when printing
// from the AST node without the comment map), and blank lines; keep every other statement verbatim.
func skeleton(fd *ast.FuncDecl) string {
	var keep func(list []ast.Stmt) []ast.Stmt
	isLog := func(s ast.Stmt) bool {
		es, ok := s.(*ast.ExprStmt)
		if !ok {
			return false
		}
		c, ok := es.X.(*ast.CallExpr)
		if !ok {
			return false
		}
		sel, ok := c.Fun.(*ast.SelectorExpr)
		if !ok {
			return false
		}
		id, ok := sel.X.(*ast.Ident)
		return ok && id.Name == "log"
	}
	keep = func(list []ast.Stmt) []ast.Stmt {
		var r []ast.Stmt
		for _, s := range list {
			if isLog(s) {
				continue
			}
			r = append(r, s)
		}
		return r
	}
	// strip logging calls everywhere (in place on a throw-away parse)
	ast.Inspect(fd, func(n ast.Node) bool {
		switch v := n.(type) {
		case *ast.BlockStmt:
			v.List = keep(v.List)
		case *ast.CaseClause:
			v.Body = keep(v.Body)
		case *ast.CommClause:
			v.Body = keep(v.Body)
		}
		return true
	})
	fd.Doc = nil
	text := src(fd)
	var lines []string
	for _, l := range strings.Split(text, "\n") {
		l = strings.TrimSpace(l)
		if l == "" || strings.HasPrefix(l, "//") {
			continue
		}
		lines = append(lines, l)
	}
	return strings.Join(lines, "\n")
}

func fnv64(s string) uint64 {
	h := fnv.New64a()
	h.Write([]byte(s))
	return h.Sum64()
}

// ---------------------------------------------------------------- constants

type constTarget struct {
	Name string // Lean name
	File string
	Kind string // "chancap" | "const" | "ctorarg"
	Recv string
	Func string
	Key  string // field name for chancap; const name for const
}

// durations are emitted in nanoseconds, as Go does
var durUnits = map[string]int64{"Nanosecond": 1, "Microsecond": 1e3, "Millisecond": 1e6, "Second": 1e9, "Minute": 60e9, "Hour": 3600e9}

func evalConst(e ast.Expr) (int64, bool) {
	switch v := e.(type) {
	case *ast.BasicLit:
		if v.Kind == token.INT {
			n, err := strconv.ParseInt(v.Value, 0, 64)
			return n, err == nil
		}
	case *ast.ParenExpr:
		return evalConst(v.X)
	case *ast.SelectorExpr:
		if id, ok := v.X.(*ast.Ident); ok && id.Name == "time" {
			u, ok := durUnits[v.Sel.Name]
			return u, ok
		}
	case *ast.BinaryExpr:
		a, ok1 := evalConst(v.X)
		b, ok2 := evalConst(v.Y)
		if !ok1 || !ok2 {
			return 0, false
		}
		switch v.Op {
		case token.MUL:
			return a * b, true
		case token.ADD:
			return a + b, true
		case token.SUB:
			return a - b, true
		case token.QUO:
			if b != 0 {
				return a / b, true
			}
		}
	}
	return 0, false
}

func findConst(rel, name string) (int64, bool) {
	f := parseFile(rel)
	if f == nil {
		return 0, false
	}
	for _, d := range f.Decls {
		gd, ok := d.(*ast.GenDecl)
		if !ok || (gd.Tok != token.CONST && gd.Tok != token.VAR) {
			continue
		}
		for _, s := range gd.Specs {
			vs := s.(*ast.ValueSpec)
			for i, n := range vs.Names {
				if n.Name == name && i < len(vs.Values) {
					return evalConst(vs.Values[i])
				}
			}
		}
	}
	return 0, false
}

// capacity of `make(chan T, n)` assigned to (or used as the composite-literal value of) field `field` in func.
func findChanCap(rel, recv, fn, field string) (int64, bool) {
	fd := findFunc(rel, recv, fn)
	if fd == nil {
		return 0, false
	}
	var res int64
	found := false
	chk := func(lhs string, rhs ast.Expr) {
		if !strings.HasSuffix(lhs, field) {
			return
		}
		c, ok := rhs.(*ast.CallExpr)
		if !ok {
			return
		}
		id, ok := c.Fun.(*ast.Ident)
		if !ok || id.Name != "make" || len(c.Args) < 1 {
			return
		}
		if _, ok := c.Args[0].(*ast.ChanType); !ok {
			return
		}
		if len(c.Args) == 1 {
			res, found = 0, true
			return
		}
		if n, ok := evalConst(c.Args[1]); ok {
			res, found = n, true
		}
	}
	ast.Inspect(fd, func(n ast.Node) bool {
		switch v := n.(type) {
		case *ast.AssignStmt:
			for i := range v.Lhs {
				if i < len(v.Rhs) {
					chk(src(v.Lhs[i]), v.Rhs[i])
				}
			}
		case *ast.KeyValueExpr:
			chk(src(v.Key), v.Value)
		}
		return true
	})
	return res, found
}

// the integer literal passed as argument #idx to the call of callee inside fn
func findCallArg(rel, recv, fn, callee string, idx int) (int64, bool) {
	fd := findFunc(rel, recv, fn)
	if fd == nil {
		return 0, false
	}
	var res int64
	found := false
	ast.Inspect(fd, func(n ast.Node) bool {
		c, ok := n.(*ast.CallExpr)
		if !ok {
			return true
		}
		if src(c.Fun) == callee && idx < len(c.Args) {
			if v, ok := evalConst(c.Args[idx]); ok && !found {
				res, found = v, true
			}
		}
		return true
	})
	return res, found
}

func goDirective() string {
	b, err := os.ReadFile(filepath.Join(*repo, "go.mod"))
	if err != nil {
		return ""
	}
	for _, l := range strings.Split(string(b), "\n") {
		l = strings.TrimSpace(l)
		if strings.HasPrefix(l, "go ") {
			return strings.TrimSpace(strings.TrimPrefix(l, "go "))
		}
	}
	return ""
}

// ---------------------------------------------------------------- main

func main() {
	flag.Parse()
	_ = os.MkdirAll(*out, 0o755)
	_ = os.RemoveAll(*skelOut)
	_ = os.MkdirAll(*skelOut, 0o755)

	facts := map[string]interface{}{}

	// ---- T2
	var g bytes.Buffer
	g.WriteString("/-\n  REGENERATED by /verif/go/cmd/extract (translator T2 `exprgen`) from /repo's working tree on every check run.\n  Do not edit by hand.\n-/\nnamespace Gen\n\n")
	g.WriteString("/-- Go slice indexing on a byte slice, totalised: out-of-range reads yield -1 (no byte has that value). -/\ndef idx (b : List Int) (i : Int) : Int := if i < 0 then -1 else b.getD i.toNat (-1)\n\n")
	g.WriteString("namespace Guards\n\n")
	t2ok := []string{}
	for i := range exprTargets {
		t := &exprTargets[i]
		s, err := translate(t)
		if err != nil {
			failf("T2:"+t.Lean, "%v", err)
			// keep the module compiling so that unrelated properties are still decided:
			// the definition is omitted, which breaks exactly the theorems that use it.
			continue
		}
		g.WriteString(s + "\n")
		t2ok = append(t2ok, t.Lean)
	}
	g.WriteString("end Guards\nend Gen\n")
	writeIfChanged(filepath.Join(*out, "Guards.lean"), g.Bytes())
	facts["t2_translated"] = t2ok

	// ---- T4 lock-sets
	{
		rows, txt := lockgen()
		writeIfChanged(filepath.Join(*out, "Locks.lean"), lockLean(rows))
		_ = os.MkdirAll(filepath.Dir(*skelOut), 0o755)
		_ = os.WriteFile(filepath.Join(filepath.Dir(*skelOut), "locks.txt"), []byte(txt), 0o644)
		facts["t4_rows"] = len(rows)
	}

	// ---- T3 skeletons
	var s bytes.Buffer
	s.WriteString("/-\n  REGENERATED by /verif/go/cmd/extract (translator T3 `skelgen`): FNV-1a/64 fingerprints of the normalised\n  bodies of the functions the hand-written models were derived from. Readable texts: /verif/gen/skeletons.\n-/\nnamespace Gen.Skeletons\n\n")
	skels := map[string]string{}
	for _, t := range skelTargets {
		fileCache = map[string]*ast.File{} // skeleton() mutates the AST: reparse
		fd := findFunc(t.File, t.Recv, t.Func)
		if fd == nil {
			failf("T3:"+t.Name, "function %s.%s not found in %s", t.Recv, t.Func, t.File)
			fmt.Fprintf(&s, "def %s : Nat := 0\n", t.Name)
			continue
		}
		text := skeleton(fd)
		skels[t.Name] = text
		_ = os.WriteFile(filepath.Join(*skelOut, t.Name+".txt"), []byte(text+"\n"), 0o644)
		fmt.Fprintf(&s, "def %s : Nat := %d\n", t.Name, fnv64(text))
	}
	s.WriteString("\nend Gen.Skeletons\n")
	writeIfChanged(filepath.Join(*out, "Skeletons.lean"), s.Bytes())
	fileCache = map[string]*ast.File{}

	// ---- constants
	var c bytes.Buffer
	c.WriteString("/-\n  REGENERATED by /verif/go/cmd/extract: constants of the modelled code (channel capacities, defaults; durations in ns).\n-/\nnamespace Gen.Constants\n\n")
	consts := map[string]int64{}
	for _, t := range constTargets {
		var v int64
		var ok bool
		switch t.Kind {
		case "chancap":
			v, ok = findChanCap(t.File, t.Recv, t.Func, t.Key)
		case "const":
			v, ok = findConst(t.File, t.Key)
		case "callarg":
			parts := strings.Split(t.Key, "#")
			idx, _ := strconv.Atoi(parts[1])
			v, ok = findCallArg(t.File, t.Recv, t.Func, parts[0], idx)
		}
		if !ok {
			failf("CONST:"+t.Name, "could not extract %s %s in %s.%s (%s)", t.Kind, t.Key, t.Recv, t.Func, t.File)
			continue
		}
		consts[t.Name] = v
		fmt.Fprintf(&c, "def %s : Int := %d\n", t.Name, v)
	}
	gd := goDirective()
	fmt.Fprintf(&c, "/-- go.mod `go` directive: %s; pre-1.23 timer-channel semantics iff minor < 23 -/\ndef goMinor : Nat := %d\n", gd, goMinor(gd))
	c.WriteString("\nend Gen.Constants\n")
	writeIfChanged(filepath.Join(*out, "Constants.lean"), c.Bytes())
	facts["constants"] = consts
	facts["go_directive"] = gd
	names := []string{}
	for k := range skels {
		names = append(names, k)
	}
	sort.Strings(names)
	facts["skeletons"] = names
	facts["failures"] = failures
	b, _ := json.MarshalIndent(facts, "", " ")
	_ = os.WriteFile(filepath.Join(*skelOut, "..", "facts.json"), b, 0o644)
	for _, f := range failures {
		fmt.Printf("EXTRACT-FAIL %s: %s\n", f.What, f.Why)
	}
}

func goMinor(d string) int {
	p := strings.Split(d, ".")
	if len(p) < 2 {
		return 0
	}
	n, _ := strconv.Atoi(p[1])
	return n
}

func writeIfChanged(path string, b []byte) {
	old, err := os.ReadFile(path)
	if err == nil && bytes.Equal(old, b) {
		return // keep mtime so lake does not rebuild
	}
	_ = os.WriteFile(path, b, 0o644)
}
