// Command reggen is translator T1: it regenerates lean/OcppGen/Registry.lean (+ gen/registry.json) from
// /repo's working tree.
//
// By reflection (it links the repository): every ocpp.Profile, its features, the request/response Go types
// and the names they report; every payload type's field tree with json keys and validate tags.
// By go/ast: the profiles each endpoint constructor registers, each role's SendRequestAsync allow-list,
// the profile-name -> handler-field switch and the action -> (handler field, method, asserted type) switch
// of each handleIncomingRequest, the typed helpers and the feature they build, every exported constant of a
// named string type, every isValid* validator's case list, every RegisterValidation(tag, fn).
//
// Names are interned to Nat codes so that kernel `decide` over the tables is fast.
package main

import (
	"encoding/json"
	"flag"
	"fmt"
	"go/ast"
	"go/parser"
	"go/token"
	"os"
	"path/filepath"
	"reflect"
	"sort"
	"strconv"
	"strings"

	"github.com/lorenzodonini/ocpp-go/ocpp"
)

var repo = flag.String("repo", "/repo", "repository root")
var out = flag.String("out", "/verif/lean/OcppGen", "Lean output dir")
var factsPath = flag.String("facts", "/verif/gen/registry.json", "JSON facts output")
var stubsPath = flag.String("stubs", "/verif/go/cmd/harness/zz_stubs_gen.go", "generated handler stubs for the harness")
var specPath = flag.String("spec", "/verif/expected/roles.json", "committed role assignment (stands in for the OCPP specification)")

const modPrefix = "github.com/lorenzodonini/ocpp-go/"

var fset = token.NewFileSet()

var problems []string

func problem(format string, a ...interface{}) {
	problems = append(problems, fmt.Sprintf(format, a...))
}

// ---------------------------------------------------------------- package AST info

type constInfo struct {
	Type  string
	Value string
}

type pkgInfo struct {
	dir     string
	name    string
	consts  map[string]constInfo
	funcs   map[string]*ast.FuncDecl // "Recv.Name" or "Name"
	ifaces  map[string]*ast.InterfaceType
	files   map[string]*ast.File
	imports map[string]map[string]string // file -> alias -> import path
}

var pkgCache = map[string]*pkgInfo{}

func loadPkg(rel string) *pkgInfo {
	if p, ok := pkgCache[rel]; ok {
		return p
	}
	dir := filepath.Join(*repo, rel)
	p := &pkgInfo{dir: rel, consts: map[string]constInfo{}, funcs: map[string]*ast.FuncDecl{}, ifaces: map[string]*ast.InterfaceType{}, files: map[string]*ast.File{}, imports: map[string]map[string]string{}}
	pkgCache[rel] = p
	ents, err := os.ReadDir(dir)
	if err != nil {
		problem("cannot read package dir %s: %v", rel, err)
		return p
	}
	for _, e := range ents {
		if e.IsDir() || !strings.HasSuffix(e.Name(), ".go") || strings.HasSuffix(e.Name(), "_test.go") {
			continue
		}
		f, err := parser.ParseFile(fset, filepath.Join(dir, e.Name()), nil, 0)
		if err != nil {
			problem("parse %s/%s: %v", rel, e.Name(), err)
			continue
		}
		p.name = f.Name.Name
		p.files[e.Name()] = f
		im := map[string]string{}
		for _, is := range f.Imports {
			path, _ := strconv.Unquote(is.Path.Value)
			alias := filepath.Base(path)
			if is.Name != nil {
				alias = is.Name.Name
			}
			im[alias] = path
		}
		p.imports[e.Name()] = im
		for _, d := range f.Decls {
			switch v := d.(type) {
			case *ast.FuncDecl:
				key := v.Name.Name
				if v.Recv != nil && len(v.Recv.List) > 0 {
					t := v.Recv.List[0].Type
					if s, ok := t.(*ast.StarExpr); ok {
						t = s.X
					}
					if id, ok := t.(*ast.Ident); ok {
						key = id.Name + "." + key
					}
				}
				p.funcs[key] = v
			case *ast.GenDecl:
				if v.Tok == token.CONST || v.Tok == token.VAR {
					lastType := ""
					for _, s := range v.Specs {
						vs := s.(*ast.ValueSpec)
						tn := ""
						if vs.Type != nil {
							if id, ok := vs.Type.(*ast.Ident); ok {
								tn = id.Name
							} else if se, ok := vs.Type.(*ast.SelectorExpr); ok {
								tn = exprStr(se)
							}
						}
						if tn == "" && len(vs.Values) == 0 {
							tn = lastType
						}
						lastType = tn
						for i, n := range vs.Names {
							if i < len(vs.Values) {
								if sv, ok := stringLit(vs.Values[i]); ok {
									p.consts[n.Name] = constInfo{tn, sv}
								} else if ce, ok := vs.Values[i].(*ast.CallExpr); ok && len(ce.Args) == 1 {
									// const X = T("value")
									if sv, ok := stringLit(ce.Args[0]); ok {
										p.consts[n.Name] = constInfo{exprStr(ce.Fun), sv}
									}
								}
							}
						}
					}
				}
				if v.Tok == token.TYPE {
					for _, s := range v.Specs {
						ts := s.(*ast.TypeSpec)
						if it, ok := ts.Type.(*ast.InterfaceType); ok {
							p.ifaces[ts.Name.Name] = it
						}
					}
				}
			}
		}
	}
	return p
}

func stringLit(e ast.Expr) (string, bool) {
	if bl, ok := e.(*ast.BasicLit); ok && bl.Kind == token.STRING {
		s, err := strconv.Unquote(bl.Value)
		return s, err == nil
	}
	return "", false
}

func exprStr(e ast.Expr) string {
	switch v := e.(type) {
	case *ast.Ident:
		return v.Name
	case *ast.SelectorExpr:
		return exprStr(v.X) + "." + v.Sel.Name
	case *ast.StarExpr:
		return "*" + exprStr(v.X)
	case *ast.ArrayType:
		return "[]" + exprStr(v.Elt)
	case *ast.ParenExpr:
		return exprStr(v.X)
	case *ast.CallExpr:
		return exprStr(v.Fun) + "()"
	case *ast.CompositeLit:
		return exprStr(v.Type) + "{}"
	}
	return fmt.Sprintf("<%T>", e)
}

func relOfImport(path string) (string, bool) {
	if strings.HasPrefix(path, modPrefix) {
		return strings.TrimPrefix(path, modPrefix), true
	}
	return "", false
}

// resolve `alias.Const` (or a local Const) used in file `file` of package p to its string value
func (p *pkgInfo) resolveConst(file string, e ast.Expr) (string, bool) {
	switch v := e.(type) {
	case *ast.Ident:
		c, ok := p.consts[v.Name]
		return c.Value, ok
	case *ast.SelectorExpr:
		alias := exprStr(v.X)
		path, ok := p.imports[file][alias]
		if !ok {
			return "", false
		}
		rel, ok := relOfImport(path)
		if !ok {
			return "", false
		}
		c, ok := loadPkg(rel).consts[v.Sel.Name]
		return c.Value, ok
	case *ast.BasicLit:
		return stringLit(v)
	}
	return "", false
}

func fileOf(p *pkgInfo, fd *ast.FuncDecl) string {
	pos := fset.Position(fd.Pos()).Filename
	return filepath.Base(pos)
}

// ---------------------------------------------------------------- interning

var names []string
var nameIdx = map[string]int{}

func intern(s string) int {
	if i, ok := nameIdx[s]; ok {
		return i
	}
	nameIdx[s] = len(names)
	names = append(names, s)
	return len(names) - 1
}

func natList(xs []int) string {
	ss := make([]string, len(xs))
	for i, x := range xs {
		ss[i] = strconv.Itoa(x)
	}
	return "[" + strings.Join(ss, ", ") + "]"
}

func internAll(xs []string) []int {
	r := make([]int, len(xs))
	for i, x := range xs {
		r[i] = intern(x)
	}
	return r
}

// ---------------------------------------------------------------- per-version extraction

type roleSpec struct {
	Key      string // "cp" / "cs"
	File     string
	Recv     string
	Ctor     string // constructor in the version file
	CtorCall string // ocppj.NewClient / ocppj.NewServer
}

type versionSpec struct {
	Key      string // "R16" / "R201"
	Dir      string
	CtorFile string
	Roles    []roleSpec
	Profiles map[string]*ocpp.Profile // import path (relative) -> profile (reflection)
}

type recvCase struct {
	Feature  string `json:"feature"`
	Field    string `json:"handler_field"`
	Method   string `json:"method"`
	Asserted string `json:"asserted_type"`
}

type roleFacts struct {
	Profiles      []string            `json:"profiles"`       // profile names registered by the constructor
	ProfilePkgs   []string            `json:"profile_pkgs"`   // their packages
	Send          []string            `json:"send"`           // SendRequestAsync allow-list
	Recv          []recvCase          `json:"recv"`           // action switch
	ProfileSwitch map[string]string   `json:"profile_switch"` // profile name -> handler field
	Helpers       map[string]string   `json:"helpers"`        // helper method -> feature built
	HandlerIface  map[string][]string `json:"-"`
}

type featureFacts struct {
	Name     string `json:"name"`
	Profile  string `json:"profile"`
	Pkg      string `json:"pkg"`
	ReqType  string `json:"req_type"`
	RespType string `json:"resp_type"`
	ReqName  string `json:"req_name"`
	RespName string `json:"resp_name"`
}

type enumFacts struct {
	Tag       string   `json:"tag"`
	Pkg       string   `json:"pkg"`
	Func      string   `json:"func"`
	Type      string   `json:"type"`
	Accepted  []string `json:"accepted"`  // values in the validator's case list
	Exported  []string `json:"exported"`  // values of the exported constants of that type
	ExpNames  []string `json:"exported_names"`
	Structlvl bool     `json:"-"`
}

type versionFacts struct {
	Features      []featureFacts        `json:"features"`
	Roles         map[string]*roleFacts `json:"roles"`
	Enums         []enumFacts           `json:"enums"`
	Registrations [][2]string           `json:"registrations"` // tag, pkg.func
	FieldTags     []string              `json:"field_tags"`    // every validate tag name used on a reachable field
	TagsKnown     map[string]bool       `json:"tags_known"`    // tag -> known to the live validator instance
	Types         map[string]*typeFacts `json:"types"`
}

func findCallsIn(n ast.Node, fun string) []*ast.CallExpr {
	var r []*ast.CallExpr
	ast.Inspect(n, func(x ast.Node) bool {
		if c, ok := x.(*ast.CallExpr); ok && exprStr(c.Fun) == fun {
			r = append(r, c)
		}
		return true
	})
	return r
}

func extractRole(v *versionSpec, rs roleSpec, feats map[string]featureFacts) *roleFacts {
	rf := &roleFacts{ProfileSwitch: map[string]string{}, Helpers: map[string]string{}}
	p := loadPkg(v.Dir)
	// constructor profile list
	if ctor, ok := p.funcs[rs.Ctor]; ok {
		file := fileOf(p, ctor)
		calls := findCallsIn(ctor, rs.CtorCall)
		if len(calls) == 0 {
			problem("%s: no call of %s in %s", v.Key, rs.CtorCall, rs.Ctor)
		}
		for _, c := range calls {
			for _, a := range c.Args {
				if se, ok := a.(*ast.SelectorExpr); ok && se.Sel.Name == "Profile" {
					alias := exprStr(se.X)
					path := p.imports[file][alias]
					rel, _ := relOfImport(path)
					rf.ProfilePkgs = append(rf.ProfilePkgs, rel)
					if pr, ok := v.Profiles[rel]; ok {
						rf.Profiles = append(rf.Profiles, pr.Name)
					} else {
						problem("%s %s: constructor registers profile of package %q which translator T1 does not link (add it to reggen's import table)", v.Key, rs.Key, rel)
					}
				}
			}
		}
	} else {
		problem("%s: constructor %s not found", v.Key, rs.Ctor)
	}
	// allow-list
	if fd, ok := p.funcs[rs.Recv+".SendRequestAsync"]; ok {
		file := fileOf(p, fd)
		found := false
		ast.Inspect(fd, func(x ast.Node) bool {
			sw, ok := x.(*ast.SwitchStmt)
			if !ok || sw.Tag == nil || exprStr(sw.Tag) != "featureName" {
				return true
			}
			found = true
			for _, cl := range sw.Body.List {
				cc := cl.(*ast.CaseClause)
				if cc.List == nil {
					continue
				}
				// a case that returns an error is a deny-list entry; the code uses `break`
				allows := true
				for _, st := range cc.Body {
					if _, ok := st.(*ast.ReturnStmt); ok {
						allows = false
					}
				}
				for _, e := range cc.List {
					if s, ok := p.resolveConst(file, e); ok {
						if allows {
							rf.Send = append(rf.Send, s)
						}
					} else {
						problem("%s %s: cannot resolve allow-list entry %s", v.Key, rs.Key, exprStr(e))
					}
				}
			}
			return false
		})
		if !found {
			problem("%s %s: SendRequestAsync has no `switch featureName`", v.Key, rs.Key)
		}
	} else {
		problem("%s %s: SendRequestAsync not found", v.Key, rs.Key)
	}
	// receive switches
	if fd, ok := p.funcs[rs.Recv+".handleIncomingRequest"]; ok {
		file := fileOf(p, fd)
		ast.Inspect(fd, func(x ast.Node) bool {
			sw, ok := x.(*ast.SwitchStmt)
			if !ok || sw.Tag == nil {
				return true
			}
			switch exprStr(sw.Tag) {
			case "profile.Name":
				for _, cl := range sw.Body.List {
					cc := cl.(*ast.CaseClause)
					field := ""
					ast.Inspect(cc, func(y ast.Node) bool {
						if be, ok := y.(*ast.BinaryExpr); ok && be.Op == token.EQL && exprStr(be.Y) == "nil" {
							if se, ok := be.X.(*ast.SelectorExpr); ok {
								field = se.Sel.Name
							}
						}
						return true
					})
					for _, e := range cc.List {
						if s, ok := p.resolveConst(file, e); ok {
							rf.ProfileSwitch[s] = field
						} else {
							problem("%s %s: cannot resolve profile case %s", v.Key, rs.Key, exprStr(e))
						}
					}
				}
			case "action":
				for _, cl := range sw.Body.List {
					cc := cl.(*ast.CaseClause)
					if cc.List == nil {
						continue
					}
					rc := recvCase{}
					ast.Inspect(cc, func(y ast.Node) bool {
						c, ok := y.(*ast.CallExpr)
						if !ok {
							return true
						}
						se, ok := c.Fun.(*ast.SelectorExpr)
						if !ok {
							return true
						}
						inner, ok := se.X.(*ast.SelectorExpr)
						if !ok || !strings.HasPrefix(se.Sel.Name, "On") {
							return true
						}
						for _, a := range c.Args {
							if ta, ok := a.(*ast.TypeAssertExpr); ok && rc.Method == "" {
								rc.Field, rc.Method = inner.Sel.Name, se.Sel.Name
								t := ta.Type
								if st, ok := t.(*ast.StarExpr); ok {
									t = st.X
								}
								rc.Asserted = qualify(p, file, t)
							}
						}
						return true
					})
					for _, e := range cc.List {
						if s, ok := p.resolveConst(file, e); ok {
							c := rc
							c.Feature = s
							rf.Recv = append(rf.Recv, c)
						} else {
							problem("%s %s: cannot resolve action case %s", v.Key, rs.Key, exprStr(e))
						}
					}
				}
			}
			return true
		})
	} else {
		problem("%s %s: handleIncomingRequest not found", v.Key, rs.Key)
	}
	// typed helpers: methods of the role type that build a request with pkg.NewXxxRequest(...)
	reqTypeToFeature := map[string]string{}
	for _, f := range feats {
		reqTypeToFeature[f.ReqType] = f.Name
	}
	for key, fd := range p.funcs {
		if !strings.HasPrefix(key, rs.Recv+".") || fd.Body == nil || !ast.IsExported(fd.Name.Name) {
			continue
		}
		file := fileOf(p, fd)
		ast.Inspect(fd.Body, func(x ast.Node) bool {
			as, ok := x.(*ast.AssignStmt)
			if !ok || len(as.Lhs) != 1 || exprStr(as.Lhs[0]) != "request" || len(as.Rhs) != 1 {
				return true
			}
			c, ok := as.Rhs[0].(*ast.CallExpr)
			if !ok {
				return true
			}
			se, ok := c.Fun.(*ast.SelectorExpr)
			if !ok || !strings.HasPrefix(se.Sel.Name, "New") {
				return true
			}
			path := p.imports[file][exprStr(se.X)]
			rel, ok := relOfImport(path)
			if !ok {
				return true
			}
			q := loadPkg(rel)
			ctor, ok := q.funcs[se.Sel.Name]
			if !ok || ctor.Type.Results == nil || len(ctor.Type.Results.List) != 1 {
				problem("%s %s: helper %s calls unknown constructor %s", v.Key, rs.Key, fd.Name.Name, exprStr(c.Fun))
				return true
			}
			rt := ctor.Type.Results.List[0].Type
			if st, ok := rt.(*ast.StarExpr); ok {
				rt = st.X
			}
			tn := rel + "." + exprStr(rt)
			if f, ok := reqTypeToFeature[tn]; ok {
				rf.Helpers[fd.Name.Name] = f
			} else {
				problem("%s %s: helper %s builds %s which is no feature's request type", v.Key, rs.Key, fd.Name.Name, tn)
			}
			return true
		})
	}
	return rf
}

// qualified type name "rel/path.Type"
func qualify(p *pkgInfo, file string, t ast.Expr) string {
	switch v := t.(type) {
	case *ast.SelectorExpr:
		path := p.imports[file][exprStr(v.X)]
		rel, _ := relOfImport(path)
		return rel + "." + v.Sel.Name
	case *ast.Ident:
		return p.dir + "." + v.Name
	}
	return exprStr(t)
}

func typeName(t reflect.Type) string {
	for t.Kind() == reflect.Ptr {
		t = t.Elem()
	}
	rel, _ := relOfImport(t.PkgPath())
	return rel + "." + t.Name()
}

func extractFeatures(v *versionSpec) []featureFacts {
	var res []featureFacts
	var pkgs []string
	for k := range v.Profiles {
		pkgs = append(pkgs, k)
	}
	sort.Strings(pkgs)
	for _, pk := range pkgs {
		pr := v.Profiles[pk]
		var fn []string
		for n := range pr.Features {
			fn = append(fn, n)
		}
		sort.Strings(fn)
		for _, n := range fn {
			f := pr.Features[n]
			ff := featureFacts{Name: n, Profile: pr.Name, Pkg: pk, ReqType: typeName(f.GetRequestType()), RespType: typeName(f.GetResponseType())}
			if r, ok := reflect.New(f.GetRequestType()).Interface().(ocpp.Request); ok {
				ff.ReqName = r.GetFeatureName()
			} else if r, ok := reflect.New(f.GetRequestType()).Elem().Interface().(ocpp.Request); ok {
				ff.ReqName = r.GetFeatureName()
			}
			if r, ok := reflect.New(f.GetResponseType()).Interface().(ocpp.Response); ok {
				ff.RespName = r.GetFeatureName()
			} else if r, ok := reflect.New(f.GetResponseType()).Elem().Interface().(ocpp.Response); ok {
				ff.RespName = r.GetFeatureName()
			}
			if f.GetFeatureName() != n {
				problem("%s: profile %s maps key %q to a feature reporting %q", v.Key, pr.Name, n, f.GetFeatureName())
			}
			res = append(res, ff)
		}
	}
	return res
}

// enumerations: RegisterValidation("tag", fn) + fn's case list + exported constants of the switch type
func extractEnums(v *versionSpec, rels []string) ([]enumFacts, [][2]string) {
	var enums []enumFacts
	var regs [][2]string
	for _, rel := range rels {
		p := loadPkg(rel)
		var fnames []string
		for fn := range p.files {
			fnames = append(fnames, fn)
		}
		sort.Strings(fnames)
		for _, fn := range fnames {
			f := p.files[fn]
			ast.Inspect(f, func(x ast.Node) bool {
				c, ok := x.(*ast.CallExpr)
				if !ok {
					return true
				}
				se, ok := c.Fun.(*ast.SelectorExpr)
				if !ok || (se.Sel.Name != "RegisterValidation" && se.Sel.Name != "RegisterStructValidation") || len(c.Args) < 2 {
					return true
				}
				if se.Sel.Name == "RegisterStructValidation" {
					regs = append(regs, [2]string{"struct:" + exprStr(c.Args[1]), rel + "." + exprStr(c.Args[0])})
					return true
				}
				tag, ok := stringLit(c.Args[0])
				if !ok {
					problem("%s: RegisterValidation with non-literal tag in %s/%s", v.Key, rel, fn)
					return true
				}
				fnName := exprStr(c.Args[1])
				regs = append(regs, [2]string{tag, rel + "." + fnName})
				fd, ok := p.funcs[fnName]
				if !ok {
					return true // validator defined elsewhere (e.g. ocppj.IsErrorCodeValid)
				}
				ef := enumFacts{Tag: tag, Pkg: rel, Func: fnName}
				// first switch in the body
				var sw *ast.SwitchStmt
				ast.Inspect(fd, func(y ast.Node) bool {
					if s, ok := y.(*ast.SwitchStmt); ok && sw == nil {
						sw = s
					}
					return true
				})
				if sw == nil {
					return true // not an enumeration validator
				}
				// the type: `x := T(fl.Field().String())`
				ast.Inspect(fd, func(y ast.Node) bool {
					if as, ok := y.(*ast.AssignStmt); ok && len(as.Rhs) == 1 && ef.Type == "" {
						if ce, ok := as.Rhs[0].(*ast.CallExpr); ok {
							if id, ok := ce.Fun.(*ast.Ident); ok {
								ef.Type = id.Name
							} else if se2, ok := ce.Fun.(*ast.SelectorExpr); ok {
								ef.Type = exprStr(se2)
							}
						}
					}
					return true
				})
				for _, cl := range sw.Body.List {
					cc := cl.(*ast.CaseClause)
					ret := true
					for _, st := range cc.Body {
						if r, ok := st.(*ast.ReturnStmt); ok && len(r.Results) == 1 && exprStr(r.Results[0]) == "false" {
							ret = false
						}
					}
					if cc.List == nil || !ret {
						continue
					}
					for _, e := range cc.List {
						if s, ok := p.resolveConst(fn, e); ok {
							ef.Accepted = append(ef.Accepted, s)
						} else {
							problem("%s: cannot resolve %s in validator %s.%s", v.Key, exprStr(e), rel, fnName)
						}
					}
				}
				// exported constants of that type (in the type's own package)
				tp := p
				tname := ef.Type
				if i := strings.Index(tname, "."); i >= 0 {
					path := p.imports[fn][tname[:i]]
					if r2, ok := relOfImport(path); ok {
						tp = loadPkg(r2)
						tname = tname[i+1:]
					}
				}
				var cn []string
				for n, ci := range tp.consts {
					if ci.Type == tname && ast.IsExported(n) {
						cn = append(cn, n)
					}
				}
				sort.Strings(cn)
				for _, n := range cn {
					ef.Exported = append(ef.Exported, tp.consts[n].Value)
					ef.ExpNames = append(ef.ExpNames, tp.dir+"."+n)
				}
				enums = append(enums, ef)
				return true
			})
		}
	}
	return enums, regs
}

// ---------------------------------------------------------------- schemas (field trees)

type fieldFacts struct {
	Name      string   `json:"name"`
	JSON      string   `json:"json"`
	OmitEmpty bool     `json:"omitempty"`
	Kind      string   `json:"kind"` // string int float bool struct ptr slice iface datetime map
	Type      string   `json:"type"` // qualified Go type of the element (after ptr/slice)
	Ptr       bool     `json:"ptr"`
	Slice     bool     `json:"slice"`
	Tags      []string `json:"tags"` // validate tag parts, in order
}

type typeFacts struct {
	Name   string       `json:"name"`
	Fields []fieldFacts `json:"fields"`
}

func walkType(t reflect.Type, types map[string]*typeFacts, tagSet map[string]bool) {
	for t.Kind() == reflect.Ptr || t.Kind() == reflect.Slice {
		t = t.Elem()
	}
	if t.Kind() != reflect.Struct {
		return
	}
	tn := typeName(t)
	if _, ok := types[tn]; ok {
		return
	}
	if t.PkgPath() == "time" {
		return
	}
	tf := &typeFacts{Name: tn}
	types[tn] = tf
	for i := 0; i < t.NumField(); i++ {
		f := t.Field(i)
		if f.PkgPath != "" && !f.Anonymous {
			continue // unexported
		}
		ff := fieldFacts{Name: f.Name}
		js := f.Tag.Get("json")
		parts := strings.Split(js, ",")
		ff.JSON = parts[0]
		if ff.JSON == "" {
			ff.JSON = f.Name
		}
		for _, o := range parts[1:] {
			if o == "omitempty" {
				ff.OmitEmpty = true
			}
		}
		ft := f.Type
		if ft.Kind() == reflect.Ptr {
			ff.Ptr = true
			ft = ft.Elem()
		}
		if ft.Kind() == reflect.Slice {
			ff.Slice = true
			ft = ft.Elem()
			if ft.Kind() == reflect.Ptr {
				ft = ft.Elem()
			}
		}
		switch ft.Kind() {
		case reflect.String:
			ff.Kind = "string"
		case reflect.Int, reflect.Int8, reflect.Int16, reflect.Int32, reflect.Int64, reflect.Uint, reflect.Uint8, reflect.Uint16, reflect.Uint32, reflect.Uint64:
			ff.Kind = "int"
		case reflect.Float32, reflect.Float64:
			ff.Kind = "float"
		case reflect.Bool:
			ff.Kind = "bool"
		case reflect.Interface:
			ff.Kind = "iface"
		case reflect.Map:
			ff.Kind = "map"
		case reflect.Struct:
			ff.Kind = "struct"
			if ft.Name() == "DateTime" {
				ff.Kind = "datetime"
			}
		default:
			ff.Kind = ft.Kind().String()
		}
		ff.Type = ft.String()
		if ft.PkgPath() != "" {
			ff.Type = typeName(ft)
		}
		vt := f.Tag.Get("validate")
		if vt != "" {
			for _, part := range strings.Split(vt, ",") {
				ff.Tags = append(ff.Tags, part)
				name := part
				if i := strings.Index(name, "="); i >= 0 {
					name = name[:i]
				}
				for _, alt := range strings.Split(name, "|") {
					tagSet[alt] = true
				}
			}
		}
		tf.Fields = append(tf.Fields, ff)
		if ff.Kind == "struct" {
			walkType(ft, types, tagSet)
		}
	}
}

// ---------------------------------------------------------------- main

func sortedKeys(m map[string]bool) []string {
	var r []string
	for k := range m {
		r = append(r, k)
	}
	sort.Strings(r)
	return r
}

func uniq(xs []string) []string {
	m := map[string]bool{}
	for _, x := range xs {
		m[x] = true
	}
	return sortedKeys(m)
}

func main() {
	flag.Parse()
	versions := []*versionSpec{
		{Key: "R16", Dir: "ocpp1.6", Roles: []roleSpec{
			{Key: "cp", Recv: "chargePoint", Ctor: "NewChargePoint", CtorCall: "ocppj.NewClient"},
			{Key: "cs", Recv: "centralSystem", Ctor: "NewCentralSystem", CtorCall: "ocppj.NewServer"}},
			Profiles: profiles16()},
		{Key: "R201", Dir: "ocpp2.0.1", Roles: []roleSpec{
			{Key: "cp", Recv: "chargingStation", Ctor: "NewChargingStation", CtorCall: "ocppj.NewClient"},
			{Key: "cs", Recv: "csms", Ctor: "NewCSMS", CtorCall: "ocppj.NewServer"}},
			Profiles: profiles201()},
	}
	spec := map[string]map[string][]string{}
	if b, err := os.ReadFile(*specPath); err == nil {
		_ = json.Unmarshal(b, &spec)
	}
	enumSnap := map[string]map[string][]string{}
	if b, err := os.ReadFile(filepath.Join(filepath.Dir(*specPath), "enums.json")); err == nil {
		_ = json.Unmarshal(b, &enumSnap)
	}
	enumExc := map[string][][2]string{}
	if b, err := os.ReadFile(filepath.Join(filepath.Dir(*specPath), "enum_exceptions.json")); err == nil {
		_ = json.Unmarshal(b, &enumExc)
	}
	facts := map[string]*versionFacts{}
	intern("") // code 0 = the empty / missing name
	for _, v := range versions {
		vf := &versionFacts{Roles: map[string]*roleFacts{}, TagsKnown: map[string]bool{}, Types: map[string]*typeFacts{}}
		facts[v.Key] = vf
		vf.Features = extractFeatures(v)
		fm := map[string]featureFacts{}
		for _, f := range vf.Features {
			fm[f.Name+"@"+f.Pkg] = f
		}
		for _, rs := range v.Roles {
			vf.Roles[rs.Key] = extractRole(v, rs, fm)
		}
		// packages to scan for enumerations: the profile packages, the version's types package
		var rels []string
		for k := range v.Profiles {
			rels = append(rels, k)
		}
		rels = append(rels, v.Dir+"/types")
		sort.Strings(rels)
		vf.Enums, vf.Registrations = extractEnums(v, rels)
		// field trees and the tags they use
		tagSet := map[string]bool{}
		for _, pr := range v.Profiles {
			for _, f := range pr.Features {
				walkType(f.GetRequestType(), vf.Types, tagSet)
				walkType(f.GetResponseType(), vf.Types, tagSet)
			}
		}
		vf.FieldTags = sortedKeys(tagSet)
		for _, t := range vf.FieldTags {
			vf.TagsKnown[t] = tagKnown(t)
		}
	}
	// registrations of the ocppj package itself (errorCode)
	{
		v := &versionSpec{Key: "ocppj"}
		_, regs := extractEnums(v, []string{"ocppj"})
		for _, vf := range facts {
			vf.Registrations = append(vf.Registrations, regs...)
		}
	}

	// ---- emit Lean
	var b strings.Builder
	b.WriteString("import OcppModel.Registry\n/-\n  REGENERATED by /verif/go/cmd/reggen (translator T1) from /repo's working tree on every check run.\n  Names are interned to Nat codes (table `names` in gen/registry.json; code 0 = missing).\n-/\n\nnamespace Gen\n\n")
	for _, v := range versions {
		vf := facts[v.Key]
		fmt.Fprintf(&b, "namespace %s\n\n", v.Key)
		// features: (feature, profile)
		var fp, fr, fs [][2]int
		for _, f := range vf.Features {
			fp = append(fp, [2]int{intern(f.Name), intern("profile:" + f.Profile)})
			fr = append(fr, [2]int{intern(f.Name), intern(f.ReqName)})
			fs = append(fs, [2]int{intern(f.Name), intern(f.RespName)})
		}
		b.WriteString("/-- (feature, profile) for every feature of every profile package -/\n")
		fmt.Fprintf(&b, "def featureProfile : List (Nat × Nat) := %s\n", pairList(fp))
		b.WriteString("/-- (feature, name reported by a value of its request type) -/\n")
		fmt.Fprintf(&b, "def featureReqName : List (Nat × Nat) := %s\n", pairList(fr))
		fmt.Fprintf(&b, "def featureRespName : List (Nat × Nat) := %s\n", pairList(fs))
		var ft [][2]int
		for _, f := range vf.Features {
			ft = append(ft, [2]int{intern(f.Name), intern("type:" + f.ReqType)})
		}
		fmt.Fprintf(&b, "def featureReqType : List (Nat × Nat) := %s\n\n", pairList(ft))
		for _, rs := range v.Roles {
			rf := vf.Roles[rs.Key]
			var profs []int
			for _, pn := range rf.Profiles {
				profs = append(profs, intern("profile:"+pn))
			}
			fmt.Fprintf(&b, "def %sProfiles : List Nat := %s\n", rs.Key, natList(profs))
			fmt.Fprintf(&b, "def %sSend : List Nat := %s\n", rs.Key, natList(internAll(rf.Send)))
			var recvF []int
			var recvRows [][4]int
			for _, rc := range rf.Recv {
				recvF = append(recvF, intern(rc.Feature))
				recvRows = append(recvRows, [4]int{intern(rc.Feature), intern("field:" + rc.Field), intern("method:" + rc.Method), intern("type:" + rc.Asserted)})
			}
			fmt.Fprintf(&b, "def %sRecv : List Nat := %s\n", rs.Key, natList(recvF))
			fmt.Fprintf(&b, "/-- action switch: (feature, handler field, method, asserted request type) -/\ndef %sRecvRows : List (Nat × Nat × Nat × Nat) := %s\n", rs.Key, quadList(recvRows))
			var ps [][2]int
			var pk []string
			for k := range rf.ProfileSwitch {
				pk = append(pk, k)
			}
			sort.Strings(pk)
			for _, k := range pk {
				ps = append(ps, [2]int{intern("profile:" + k), intern("field:" + rf.ProfileSwitch[k])})
			}
			fmt.Fprintf(&b, "/-- profile switch: (profile, handler field tested for nil) -/\ndef %sProfileSwitch : List (Nat × Nat) := %s\n", rs.Key, pairList(ps))
			var hs []int
			var hk []string
			for k := range rf.Helpers {
				hk = append(hk, k)
			}
			sort.Strings(hk)
			for _, k := range hk {
				hs = append(hs, intern(rf.Helpers[k]))
			}
			fmt.Fprintf(&b, "/-- features built by the typed helper methods of this role -/\ndef %sHelperFeatures : List Nat := %s\n", rs.Key, natList(hs))
			// committed role assignment (stands in for the specification)
			fmt.Fprintf(&b, "/-- role assignment from /verif/expected/roles.json -/\ndef %sSpecSend : List Nat := %s\n\n", rs.Key, natList(internAll(spec[v.Key][rs.Key])))
		}
		// tags
		fmt.Fprintf(&b, "def fieldTags : List Nat := %s\n", natList(internTags(vf.FieldTags)))
		var known []int
		for _, t := range vf.FieldTags {
			if vf.TagsKnown[t] {
				known = append(known, intern("tag:"+t))
			}
		}
		fmt.Fprintf(&b, "/-- tags the live validator instance resolves (built-in or registered), probed with Validate.Var -/\ndef knownTags : List Nat := %s\n", natList(known))
		var regTags []int
		var regRows [][2]int
		for _, r := range vf.Registrations {
			regTags = append(regTags, intern("tag:"+r[0]))
			regRows = append(regRows, [2]int{intern("tag:" + r[0]), intern("func:" + r[1])})
		}
		fmt.Fprintf(&b, "def registeredTags : List Nat := %s\n", natList(regTags))
		fmt.Fprintf(&b, "def registrations : List (Nat × Nat) := %s\n", pairList(regRows))
		b.WriteString("/-- enumerations: (tag, values accepted by the validator, values of the exported constants of the type) -/\n")
		b.WriteString("def enums : List (Nat × List Nat × List Nat) := [\n")
		for i, e := range vf.Enums {
			sep := ","
			if i == len(vf.Enums)-1 {
				sep = ""
			}
			fmt.Fprintf(&b, "  (%d, %s, %s)%s\n", intern("tag:"+e.Tag), natList(internVals(e.Accepted)), natList(internVals(e.Exported)), sep)
		}
		b.WriteString("]\n")
		b.WriteString("/-- committed snapshot of the accepted sets (/verif/expected/enums.json; stands in for the OCPP enumerations) -/\n")
		b.WriteString("def enumSnapshot : List (Nat × List Nat) := [\n")
		var snapTags []string
		for t := range enumSnap[v.Key] {
			snapTags = append(snapTags, t)
		}
		sort.Strings(snapTags)
		for i, t := range snapTags {
			sep := ","
			if i == len(snapTags)-1 {
				sep = ""
			}
			fmt.Fprintf(&b, "  (%d, %s)%s\n", intern("tag:"+t), natList(internVals(enumSnap[v.Key][t])), sep)
		}
		b.WriteString("]\n")
		var exc [][2]int
		for _, e := range enumExc[v.Key] {
			exc = append(exc, [2]int{intern("tag:" + e[0]), intern("val:" + e[1])})
		}
		fmt.Fprintf(&b, "/-- known findings (/verif/expected/enum_exceptions.json): exported constants the validator rejects -/\ndef enumExceptions : List (Nat × Nat) := %s\n", pairList(exc))
		// handler interfaces: (profile, role) -> methods with their request parameter type
		for _, rs := range v.Roles {
			var rows [][3]int
			for _, pk := range vf.Roles[rs.Key].ProfilePkgs {
				q := loadPkg(pk)
				pr := v.Profiles[pk]
				if pr == nil {
					continue
				}
				for iname, it := range q.ifaces {
					// role handler interfaces are named <Role>Handler
					want := map[string]bool{"cp": strings.HasPrefix(iname, "ChargePoint") || strings.HasPrefix(iname, "ChargingStation"), "cs": strings.HasPrefix(iname, "CentralSystem") || strings.HasPrefix(iname, "CSMS")}[rs.Key]
					if !want || !strings.HasSuffix(iname, "Handler") {
						continue
					}
					for _, m := range it.Methods.List {
						ft, ok := m.Type.(*ast.FuncType)
						if !ok || len(m.Names) == 0 {
							continue
						}
						// the request parameter is the last parameter
						last := ft.Params.List[len(ft.Params.List)-1].Type
						if st, ok := last.(*ast.StarExpr); ok {
							last = st.X
						}
						rows = append(rows, [3]int{intern("profile:" + pr.Name), intern("method:" + m.Names[0].Name), intern("type:" + pk + "." + exprStr(last))})
					}
				}
			}
			sort.Slice(rows, func(i, j int) bool { return rows[i][0]*100000+rows[i][1] < rows[j][0]*100000+rows[j][1] })
			ss := make([]string, len(rows))
			for i, r := range rows {
				ss[i] = fmt.Sprintf("(%d, %d, %d)", r[0], r[1], r[2])
			}
			fmt.Fprintf(&b, "/-- handler interface of this role per profile: (profile, method, request parameter type) -/\ndef %sHandlerMethods : List (Nat × Nat × Nat) := [%s]\n", rs.Key, strings.Join(ss, ", "))
		}
		b.WriteString("\n")
		role := func(k string) string {
			return fmt.Sprintf("{ profiles := %[1]sProfiles, send := %[1]sSend, recv := %[1]sRecv, recvRows := %[1]sRecvRows, profileSwitch := %[1]sProfileSwitch, helperFeatures := %[1]sHelperFeatures, specSend := %[1]sSpecSend, handlerMethods := %[1]sHandlerMethods }", k)
		}
		fmt.Fprintf(&b, "def reg : Ocpp.Reg := {\n  featureProfile := featureProfile, featureReqName := featureReqName, featureRespName := featureRespName, featureReqType := featureReqType,\n  cp := %s,\n  cs := %s,\n  fieldTags := fieldTags, knownTags := knownTags, registrations := registrations, enums := enums, enumSnapshot := enumSnapshot, enumExceptions := enumExceptions }\n\n", role("cp"), role("cs"))
		fmt.Fprintf(&b, "end %s\n\n", v.Key)
	}
	b.WriteString("end Gen\n")

	// union of all registrations: the validator instance is shared by both protocol versions
	{
		seen := map[[2]string]bool{}
		var rows [][2]int
		for _, v := range versions {
			for _, r := range facts[v.Key].Registrations {
				if !seen[r] {
					seen[r] = true
					rows = append(rows, [2]int{intern("tag:" + r[0]), intern("func:" + r[1])})
				}
			}
		}
		extra := fmt.Sprintf("\n/-- every RegisterValidation of both versions and ocppj (one shared validator instance) -/\ndef Gen.allRegistrations : List (Nat × Nat) := %s\n", pairList(rows))
		old, _ := os.ReadFile(filepath.Join(*out, "Registry.lean"))
		writeIfChanged(filepath.Join(*out, "Registry.lean"), []byte(b.String()+extra))
		_ = old
	}
	if *stubsPath != "" {
		writeIfChanged(*stubsPath, []byte(genStubs(versions)))
	}

	all := map[string]interface{}{"versions": facts, "names": names, "problems": problems}
	jb, _ := json.MarshalIndent(all, "", " ")
	_ = os.MkdirAll(filepath.Dir(*factsPath), 0o755)
	_ = os.WriteFile(*factsPath, jb, 0o644)
	for _, p := range problems {
		fmt.Println("REGGEN-PROBLEM", p)
	}
}

func internTags(ts []string) []int {
	r := make([]int, len(ts))
	for i, t := range ts {
		r[i] = intern("tag:" + t)
	}
	return r
}

func internVals(vs []string) []int {
	r := make([]int, len(vs))
	for i, t := range vs {
		r[i] = intern("val:" + t)
	}
	return r
}

func pairList(ps [][2]int) string {
	ss := make([]string, len(ps))
	for i, p := range ps {
		ss[i] = fmt.Sprintf("(%d, %d)", p[0], p[1])
	}
	return "[" + strings.Join(ss, ", ") + "]"
}

func quadList(ps [][4]int) string {
	ss := make([]string, len(ps))
	for i, p := range ps {
		ss[i] = fmt.Sprintf("(%d, %d, %d, %d)", p[0], p[1], p[2], p[3])
	}
	return "[" + strings.Join(ss, ", ") + "]"
}

func writeIfChanged(path string, b []byte) {
	old, err := os.ReadFile(path)
	if err == nil && string(old) == string(b) {
		return
	}
	_ = os.WriteFile(path, b, 0o644)
}
