package main

import (
	"fmt"
	"strings"

	"github.com/lorenzodonini/ocpp-go/ocpp"
	"github.com/lorenzodonini/ocpp-go/ocppj"

	c16 "github.com/lorenzodonini/ocpp-go/ocpp1.6/certificates"
	core16 "github.com/lorenzodonini/ocpp-go/ocpp1.6/core"
	etm16 "github.com/lorenzodonini/ocpp-go/ocpp1.6/extendedtriggermessage"
	fw16 "github.com/lorenzodonini/ocpp-go/ocpp1.6/firmware"
	la16 "github.com/lorenzodonini/ocpp-go/ocpp1.6/localauth"
	log16 "github.com/lorenzodonini/ocpp-go/ocpp1.6/logging"
	rt16 "github.com/lorenzodonini/ocpp-go/ocpp1.6/remotetrigger"
	res16 "github.com/lorenzodonini/ocpp-go/ocpp1.6/reservation"
	sfw16 "github.com/lorenzodonini/ocpp-go/ocpp1.6/securefirmware"
	sec16 "github.com/lorenzodonini/ocpp-go/ocpp1.6/security"
	sc16 "github.com/lorenzodonini/ocpp-go/ocpp1.6/smartcharging"

	"github.com/lorenzodonini/ocpp-go/ocpp2.0.1/authorization"
	"github.com/lorenzodonini/ocpp-go/ocpp2.0.1/availability"
	"github.com/lorenzodonini/ocpp-go/ocpp2.0.1/data"
	"github.com/lorenzodonini/ocpp-go/ocpp2.0.1/diagnostics"
	"github.com/lorenzodonini/ocpp-go/ocpp2.0.1/display"
	"github.com/lorenzodonini/ocpp-go/ocpp2.0.1/firmware"
	"github.com/lorenzodonini/ocpp-go/ocpp2.0.1/iso15118"
	"github.com/lorenzodonini/ocpp-go/ocpp2.0.1/localauth"
	"github.com/lorenzodonini/ocpp-go/ocpp2.0.1/meter"
	"github.com/lorenzodonini/ocpp-go/ocpp2.0.1/provisioning"
	"github.com/lorenzodonini/ocpp-go/ocpp2.0.1/remotecontrol"
	"github.com/lorenzodonini/ocpp-go/ocpp2.0.1/reservation"
	"github.com/lorenzodonini/ocpp-go/ocpp2.0.1/security"
	"github.com/lorenzodonini/ocpp-go/ocpp2.0.1/smartcharging"
	"github.com/lorenzodonini/ocpp-go/ocpp2.0.1/tariffcost"
	"github.com/lorenzodonini/ocpp-go/ocpp2.0.1/transactions"
)

func profiles16() map[string]*ocpp.Profile {
	return map[string]*ocpp.Profile{
		"ocpp1.6/core": core16.Profile, "ocpp1.6/localauth": la16.Profile, "ocpp1.6/firmware": fw16.Profile,
		"ocpp1.6/reservation": res16.Profile, "ocpp1.6/remotetrigger": rt16.Profile, "ocpp1.6/smartcharging": sc16.Profile,
		"ocpp1.6/logging": log16.Profile, "ocpp1.6/security": sec16.Profile, "ocpp1.6/extendedtriggermessage": etm16.Profile,
		"ocpp1.6/certificates": c16.Profile, "ocpp1.6/securefirmware": sfw16.Profile,
	}
}

func profiles201() map[string]*ocpp.Profile {
	return map[string]*ocpp.Profile{
		"ocpp2.0.1/authorization": authorization.Profile, "ocpp2.0.1/availability": availability.Profile, "ocpp2.0.1/data": data.Profile,
		"ocpp2.0.1/diagnostics": diagnostics.Profile, "ocpp2.0.1/display": display.Profile, "ocpp2.0.1/firmware": firmware.Profile,
		"ocpp2.0.1/iso15118": iso15118.Profile, "ocpp2.0.1/localauth": localauth.Profile, "ocpp2.0.1/meter": meter.Profile,
		"ocpp2.0.1/provisioning": provisioning.Profile, "ocpp2.0.1/remotecontrol": remotecontrol.Profile, "ocpp2.0.1/reservation": reservation.Profile,
		"ocpp2.0.1/security": security.Profile, "ocpp2.0.1/smartcharging": smartcharging.Profile, "ocpp2.0.1/tariffcost": tariffcost.Profile,
		"ocpp2.0.1/transactions": transactions.Profile,
	}
}

// tagKnown probes the live validator instance (all profile packages of both versions are linked here):
// a tag is unknown iff the validator panics with "Undefined validation function".
func tagKnown(tag string) bool {
	switch tag {
	case "omitempty", "dive", "required", "-", "structonly", "nostructlevel", "keys", "endkeys", "isdefault":
		return true // structural tags handled by the validator core
	}
	probe := func(v interface{}, t string) (undefined bool) {
		defer func() {
			if e := recover(); e != nil {
				undefined = strings.Contains(fmt.Sprint(e), "Undefined validation function")
			}
		}()
		_ = ocppj.Validate.Var(v, t)
		return false
	}
	return !probe("x", tag) && !probe("x", tag+"=1")
}
