module verifharness

go 1.16

require (
	github.com/anishathalye/porcupine v1.3.0
	github.com/gorilla/websocket v1.5.3
	github.com/lorenzodonini/ocpp-go v0.0.0
)

replace github.com/lorenzodonini/ocpp-go => /repo
