import sys, os, json, time, subprocess, fcntl, hashlib, re, shutil, difflib, random, collections

V = os.path.dirname(os.path.dirname(os.path.abspath(__file__)))
REPO = os.environ.get("VERIF_REPO", "/repo")
LEAN = os.path.join(V, "lean")
BIN = os.path.join(V, "bin")
GEN = os.path.join(V, "gen")
GO = os.path.join(V, "go")
HARNESS = os.path.join(BIN, "harness")
EXTRACT = os.path.join(BIN, "extract")
REGGEN = os.path.join(BIN, "reggen")
DRIVER = os.path.join(LEAN, ".lake", "build", "bin", "driver")
ALLOWED_AXIOMS = {"propext", "Classical.choice", "Quot.sound"}
FORBIDDEN = re.compile(r"\b(sorry|admit|native_decide|bv_decide|implemented_by|unsafe)\b|^\s*axiom\s|maxHeartbeats\s+0\b")

GOENV = dict(os.environ, GOFLAGS="-mod=mod", GOPROXY="off", GOSUMDB="off", GOTOOLCHAIN="local",
             CGO_ENABLED=os.environ.get("CGO_ENABLED", "1"))

TRUSTED_BASE = [
    "Lean 4.33.0 kernel (lake build); thorough tier re-checks with leanchecker",
    "axioms allowed: propext, Classical.choice, Quot.sound (audited with #print axioms on every run)",
    "hand-written models lean/OcppModel/*.lean (tied to /repo by T1-T3 regeneration and differential harness runs)",
    "translators go/cmd/extract (T2,T3), go/cmd/reggen (T1) and harness go/cmd/harness",
]


def sh(cmd, cwd=None, env=None, inp=None, timeout=1800):
    p = subprocess.run(cmd, cwd=cwd, env=env, input=inp, stdout=subprocess.PIPE, stderr=subprocess.STDOUT,
                       text=True, timeout=timeout)
    return p.returncode, p.stdout


class Lock:
    def __init__(self, name=".lock"):
        self.path = os.path.join(V, name)

    def __enter__(self):
        self.f = open(self.path, "w")
        fcntl.flock(self.f, fcntl.LOCK_EX)
        return self

    def __exit__(self, *a):
        fcntl.flock(self.f, fcntl.LOCK_UN)
        self.f.close()


# ----------------------------------------------------------------------------- known findings

def load_known():
    res = []
    p = os.path.join(V, "known_findings.txt")
    if not os.path.exists(p):
        return res
    for line in open(p):
        line = line.strip()
        if not line or line.startswith("#"):
            continue
        m = re.match(r"open:\s+property=(\S+)\s+sig=(\S+)\s*(.*)", line)
        if m:
            res.append(dict(property=m.group(1), sig=m.group(2), what=m.group(3)))
    return res


# ----------------------------------------------------------------------------- context

class Ctx:
    def __init__(self, prop, tier, seed):
        self.prop, self.tier, self.seed = prop, tier, seed
        self.t0 = time.time()
        self.obligations = []       # (name, ok, detail)
        self.violations = []        # dict(sig, what, replay, concrete:bool)
        self.known_seen = []
        self.cov = dict(evaluations=0, distinct_nontrivial=0, samples=[], traces_validated_against_impl=0)
        self.rules = []
        self.assumptions = []
        self.extra = {}
        self.known = [k for k in load_known() if k["property"] == prop]
        self.nrep = 0
        self.log = []
        import glob
        for f in glob.glob(os.path.join(V, "replays", f"{prop}-*.json")):
            try:
                os.remove(f)
            except OSError:
                pass

    def note(self, s):
        self.log.append(s)
        print(f"[{self.prop}] {s}", flush=True)

    def oblige(self, name, ok, detail=""):
        self.obligations.append((name, bool(ok), detail))
        if not ok:
            self.note(f"OBLIGATION FAILED: {name} {detail[:300]}")

    def add_cov(self, evaluations=0, distinct=0, samples=(), traces=0, rule=None):
        self.cov["evaluations"] += evaluations
        self.cov["distinct_nontrivial"] += distinct
        self.cov["traces_validated_against_impl"] += traces
        for s in samples:
            if len(self.cov["samples"]) < 12:
                self.cov["samples"].append(s)
        if rule and rule not in self.rules:
            self.rules.append(rule)

    def violation(self, sig, what, replay, concrete=True):
        """record a violation; returns True if it is new (not a known finding)"""
        for k in self.known:
            if k["sig"] == sig:
                if sig not in [x["sig"] for x in self.known_seen]:
                    self.known_seen.append(dict(sig=sig, what=k["what"] or what))
                return False
        if any(v["sig"] == sig for v in self.violations):
            return True
        self.nrep += 1
        os.makedirs(os.path.join(V, "replays"), exist_ok=True)
        path = os.path.join("replays", f"{self.prop}-{self.seed}-{self.nrep}.json")
        body = dict(property=self.prop, sig=sig, what=what, concrete_failing_input=concrete, replay=replay,
                    replay_cmd=f"./check {self.prop} --replay {path}")
        with open(os.path.join(V, path), "w") as f:
            json.dump(body, f, indent=1, default=str)
        self.violations.append(dict(sig=sig, what=what, path=path, concrete=concrete))
        return True


# ----------------------------------------------------------------------------- build / regenerate

def go_build(pkg, outname, tags=None, race=False):
    tmp = os.path.join(BIN, f".{outname}.{os.getpid()}")
    cmd = ["go", "build"]
    if race:
        cmd.append("-race")
    if tags:
        cmd += ["-tags", tags]
    cmd += ["-o", tmp, pkg]
    rc, out = sh(cmd, cwd=GO, env=GOENV)
    if rc == 0:
        os.replace(tmp, os.path.join(BIN, outname))
    else:
        try:
            os.remove(tmp)
        except OSError:
            pass
    return rc, out


def regenerate(ctx, need_reggen=False):
    """T1-T3: rebuild translators + harness against /repo's working tree and regenerate lean/OcppGen."""
    os.makedirs(BIN, exist_ok=True)
    os.makedirs(GEN, exist_ok=True)
    src_sum = os.path.join(REPO, "go.sum")
    dst_sum = os.path.join(GO, "go.sum")
    if os.path.exists(src_sum):
        have = set(open(dst_sum).read().split("\n")) if os.path.exists(dst_sum) else set()
        want = open(src_sum).read().split("\n")
        if not set(want) <= have:
            extra = ""
            if os.path.exists(os.path.join(GO, "go.sum.extra")):
                extra = open(os.path.join(GO, "go.sum.extra")).read()
            open(dst_sum, "w").write("\n".join(want) + extra)
    rc, out = go_build("./cmd/extract", "extract")
    if rc != 0:
        ctx.oblige("tie:build-extract", False, out)
        return False
    rc, out = sh([EXTRACT, "-repo", REPO, "-out", os.path.join(LEAN, "OcppGen"), "-skel", os.path.join(GEN, "skeletons")])
    fails = [l for l in out.splitlines() if l.startswith("EXTRACT-FAIL")]
    ctx.extra["extract_failures"] = fails
    for l in fails:
        ctx.note(l)
    ok = True
    rc, out = go_build("./cmd/harness", "harness", tags="verif")
    if rc != 0:
        ctx.oblige("tie:build-harness(-tags verif) against /repo", False, out[-2000:])
        ok = False
    if need_reggen:
        rc, out = go_build("./cmd/reggen", "reggen", tags="verif")
        if rc != 0:
            ctx.oblige("tie:build-reggen against /repo", False, out[-2000:])
            ok = False
        else:
            rc, out = sh([REGGEN, "-out", os.path.join(LEAN, "OcppGen"), "-facts", os.path.join(GEN, "registry.json"), "-repo", REPO], timeout=600)
            if rc != 0:
                ctx.oblige("tie:T1 reggen run", False, out[-2000:])
                ok = False
        if ok and ctx.prop in ("C04", "C05"):
            # T1 for the payload schemas: reflection over the linked types -> lean/OcppGen/Schemas.lean
            rc, out = sh([HARNESS, "monitor", "schemas_lean", "1", "quick"], env=GOENV, timeout=300)
            try:
                src = json.loads(out)["lean"]
                path = os.path.join(LEAN, "OcppGen", "Schemas.lean")
                if not os.path.exists(path) or open(path).read() != src:
                    open(path, "w").write(src)
            except Exception:
                ctx.oblige("tie:T1 schemas -> OcppGen/Schemas.lean", False, out[-500:])
                ok = False
    return ok


THEOREM_RE = re.compile(r"^(?:private\s+|protected\s+)?(theorem|lemma|example|def|instance|abbrev|inductive|structure)\s+([^\s:({\[]+)?", re.M)


def decl_index(path):
    """list of (line, kind, name) for top-level declarations in a Lean file"""
    res = []
    ns = []
    try:
        lines = open(path).read().split("\n")
    except OSError:
        return res
    for i, l in enumerate(lines, 1):
        m = re.match(r"^namespace\s+(\S+)", l)
        if m:
            ns.append(m.group(1))
            continue
        m = re.match(r"^end\s+(\S+)", l)
        if m and ns and ns[-1] == m.group(1):
            ns.pop()
            continue
        m = THEOREM_RE.match(l)
        if m:
            name = m.group(2) or f"example@{i}"
            full = ".".join(ns + [name]) if m.group(2) else name
            res.append((i, m.group(1), full))
    return res


def lake_build(ctx, module, extra_targets=("driver",)):
    """build the property's theorem module; attribute every error to a declaration"""
    rc, out = sh(["lake", "build", module] + list(extra_targets), cwd=LEAN, timeout=3000)
    errs = []
    for m in re.finditer(r"^error: ([\w/\.]+\.lean):(\d+):(\d+): (.*)$", out, re.M):
        errs.append((m.group(1), int(m.group(2)), m.group(4)))
    return rc, out, errs


def property_module_path(prop):
    return os.path.join(LEAN, "OcppProps", f"{prop}.lean")


def prove(ctx, modules=None):
    """kernel-check the property's theorems; audit axioms; returns True iff every obligation is discharged"""
    prop = ctx.prop
    module = f"OcppProps.{prop}"
    path = property_module_path(prop)
    decls = decl_index(path)
    thms = [d for d in decls if d[1] in ("theorem", "lemma")]
    examples = [d for d in decls if d[1] == "example"]
    t = time.time()
    rc, out, errs = lake_build(ctx, module)
    ctx.extra["lake_build_s"] = round(time.time() - t, 1)
    failed = {}
    for (f, line, msg) in errs:
        if f.endswith(f"OcppProps/{prop}.lean"):
            owner = None
            for d in decls:
                if d[0] <= line:
                    owner = d
            key = owner[2] if owner else f"{f}:{line}"
            failed.setdefault(key, []).append(f"{f}:{line}: {msg}")
        else:
            failed.setdefault(f"import:{f}", []).append(f"{f}:{line}: {msg}")
    if rc != 0 and not failed:
        failed["lake-build"] = [out[-1500:]]
    for d in thms:
        ctx.oblige(f"theorem {d[2]}", d[2] not in failed and not any(k.startswith("import:") or k == "lake-build" for k in failed),
                   "; ".join(failed.get(d[2], []) or [k + ": " + v[0] for k, v in failed.items() if k.startswith("import:") or k == "lake-build"][:1]))
    for d in examples:
        ctx.oblige(f"non-vacuity {d[2]}", d[2] not in failed and not any(k.startswith("import:") or k == "lake-build" for k in failed), "; ".join(failed.get(d[2], [])))
    for k, v in failed.items():
        if k not in [d[2] for d in thms + examples]:
            ctx.oblige(f"build {k}", False, "; ".join(v)[:600])
    ctx.extra["theorems"] = [d[2] for d in thms]
    if rc != 0:
        return False
    # axiom audit
    os.makedirs(os.path.join(LEAN, ".audit"), exist_ok=True)
    ap = os.path.join(LEAN, ".audit", f"{prop}.lean")
    with open(ap, "w") as f:
        f.write(f"import {module}\n")
        for d in thms:
            f.write(f"#print axioms {d[2]}\n")
    rc, out = sh(["lake", "env", "lean", ap], cwd=LEAN, timeout=900)
    axioms = {}
    for m in re.finditer(r"'([^']+)' depends on axioms: \[([^\]]*)\]", out.replace("\n", " ")):
        axioms[m.group(1)] = [a.strip() for a in m.group(2).split(",") if a.strip()]
    for m in re.finditer(r"'([^']+)' does not depend on any axioms", out):
        axioms[m.group(1)] = []
    bad = {k: v for k, v in axioms.items() if not set(v) <= ALLOWED_AXIOMS}
    missing = [d[2] for d in thms if d[2] not in axioms]
    ctx.oblige("axiom audit (#print axioms ⊆ {propext, Classical.choice, Quot.sound})", rc == 0 and not bad and not missing,
               f"bad={bad} missing={missing} {out[-300:] if rc else ''}")
    ctx.extra["axioms_used"] = sorted({a for v in axioms.values() for a in v})
    # forbidden constructs in the sources this module is built from
    hits = []
    for root in ("OcppModel", "OcppGen", "OcppProps"):
        for dp, _, fs in os.walk(os.path.join(LEAN, root)):
            for fn in fs:
                if fn.endswith(".lean"):
                    incomment = False
                    for i, l in enumerate(open(os.path.join(dp, fn)), 1):
                        s = l
                        if "/-" in s and "-/" not in s:
                            incomment = True
                            continue
                        if "-/" in s:
                            incomment = False
                            continue
                        if incomment:
                            continue
                        s = s.split("--")[0]
                        if FORBIDDEN.search(s):
                            hits.append(f"{fn}:{i}: {l.strip()}")
    ctx.oblige("no sorry/admit/axiom/native_decide/bv_decide/implemented_by/unsafe/maxHeartbeats 0", not hits, "; ".join(hits[:5]))
    if ctx.tier == "thorough":
        t = time.time()
        rc, out = sh(["lake", "env", "leanchecker", module], cwd=LEAN, timeout=3000)
        ctx.oblige(f"leanchecker {module}", rc == 0, out[-400:])
        ctx.extra["leanchecker_s"] = round(time.time() - t, 1)
    return all(o[1] for o in ctx.obligations)


# ----------------------------------------------------------------------------- differential runs

def canon_default(l):
    if l.startswith("PANIC"):
        return "PANIC"
    return l.rstrip()


def canon_timing(l):
    """sessions tainted by harness timing are compared only up to the tainted line"""
    return canon_default(l)


TIMING_SUITES = {"cdisp", "sdisp", "l3c", "l3s"}


class TimingSlot:
    """suites with real (short) timeouts are sensitive to CPU contention: at most 3 of them run at once, machine wide"""
    def __init__(self, suite):
        self.suite = suite
        self.f = None

    def __enter__(self):
        if self.suite not in TIMING_SUITES:
            return self
        import itertools
        for k in itertools.cycle(range(3)):
            f = open(os.path.join(V, f".timing_slot_{k}"), "w")
            try:
                fcntl.flock(f, fcntl.LOCK_EX | fcntl.LOCK_NB)
                self.f = f
                return self
            except OSError:
                f.close()
                time.sleep(0.05)

    def __exit__(self, *a):
        if self.f:
            fcntl.flock(self.f, fcntl.LOCK_UN)
            self.f.close()


def run_pair(suite, ops, timeout=600):
    inp = "\n".join(ops) + "\n"
    try:
        with TimingSlot(suite):
            rc1, impl = sh([HARNESS, "run", suite], inp=inp, timeout=timeout, env=GOENV)
    except subprocess.TimeoutExpired:
        rc1, impl = 124, "HARNESS-TIMEOUT"
    try:
        rc2, model = sh([DRIVER, suite], inp=inp, timeout=timeout)
    except subprocess.TimeoutExpired:
        rc2, model = 124, "DRIVER-TIMEOUT"
    return impl.split("\n"), model.split("\n"), rc1, rc2


def split_sessions(ops):
    ses, cur = [], []
    for o in ops:
        if o.split()[:1] in (["reset"], ["f"], ["h"], ["k"], ["d"], ["p"], ["e"]) and cur:      # `f` / `h` lines (suites c06, wsadmit) are self-contained
            ses.append(cur)
            cur = []
        cur.append(o)
    if cur:
        ses.append(cur)
    return ses


def first_mismatch(suite, ops, canon):
    impl, model, rc1, rc2 = run_pair(suite, ops)
    for i, o in enumerate(ops):
        a = canon(impl[i]) if i < len(impl) else "<no output: harness died>"
        b = canon(model[i]) if i < len(model) else "<no output: driver died>"
        if a == "TIMING":
            return None
        if a != b:
            return i, a, b
    return None


def shrink(suite, ses, canon):
    """ddmin-ish: drop lines while a mismatch remains; the session header (reset + the line after it, e.g. start /
    new) is never dropped so that the shrunk session stays well-formed"""
    cur = list(ses)
    n = 2
    budget = 200
    keep = 2 if len(cur) > 2 else 1
    while len(cur) > keep + 1 and budget > 0:
        chunk = max(1, (len(cur) - keep) // n)
        reduced = False
        i = keep
        while i < len(cur) and budget > 0:
            cand = cur[:i] + cur[i + chunk:]
            budget -= 1
            if len(cand) >= 1 and first_mismatch(suite, cand, canon) is not None:
                cur = cand
                reduced = True
            else:
                i += chunk
        if not reduced:
            if chunk == 1:
                break
            n = min(n * 2, len(cur))
    return cur


TIMING_SUITES = ("wska", "wscli", "wssrv", "wsio", "wsadmit", "cdisp", "sdisp", "l3c", "l3s")


def differential(ctx, suite, sessions, seed, canon=canon_default, nontrivial=None, corpus=True, oracle=None):
    """generated op sequences on the real code vs the Lean driver; returns number of disagreeing sessions"""
    ops_all = []
    cdir = os.path.join(V, "replays", "corpus", suite)
    ncorp = 0
    if corpus and os.path.isdir(cdir):
        for fn in sorted(os.listdir(cdir)):
            ops_all += [l.rstrip("\n") for l in open(os.path.join(cdir, fn)) if l.strip()]
            ncorp += 1
    rc, out = sh([HARNESS, "gen", suite, str(seed), str(sessions)], env=GOENV, timeout=600)
    if rc != 0:
        ctx.oblige(f"tie:differential {suite}: generator", False, out[-500:])
        return 1
    ops_all += [l for l in out.split("\n") if l.strip()]
    impl, model, rc1, rc2 = run_pair(suite, ops_all)
    ses = split_sessions(ops_all)
    pos = 0
    bad = []
    seen = set()
    nontriv = 0
    kinds = collections.Counter()
    outs = collections.Counter()
    timing_lines = [0]
    for s in ses:
        mism = None
        o_impl = []
        for j, o in enumerate(s):
            i = pos + j
            a = canon(impl[i]) if i < len(impl) else "<no output: harness died>"
            b = canon(model[i]) if i < len(model) else "<no output: driver died>"
            o_impl.append(a)
            kinds[" ".join(o.split()[:2])] += 1
            outs[a if len(a) < 24 and not any(ch.isdigit() for ch in a) else "<value>"] += 1
            if a == "TIMING":
                timing_lines[0] += 1
                break
            if a != b and mism is None:
                mism = (j, o, a, b)
        pos += len(s)
        h = hashlib.sha1("\n".join(s).encode()).hexdigest()
        if h not in seen:
            seen.add(h)
            if nontrivial is None or nontrivial(s, o_impl):
                nontriv += 1
        if mism:
            bad.append((s, mism))
        if oracle:
            for (sig, what) in oracle(s, o_impl):
                if suite in TIMING_SUITES:
                    # real sockets and millisecond timers: the violation must reproduce when the session is re-run alone, twice
                    again = 0
                    for _ in range(2):
                        impl2, _, _, _ = run_pair(suite, s)
                        o2 = [canon(x) for x in impl2[:len(s)]]
                        if any(sg == sig for (sg, _) in oracle(s, o2)):
                            again += 1
                    if again < 2:
                        ctx.extra.setdefault("oracle_hits_not_reproduced", []).append(dict(suite=suite, sig=sig, ops=s[:6]))
                        continue
                ctx.violation(sig, what, dict(kind="differential", suite=suite, ops=s, impl=o_impl), concrete=True)
    ctx.add_cov(evaluations=len(ops_all), distinct=nontriv, traces=len(ses),
                samples=[dict(suite=suite, ops=ses[min(len(ses) - 1, 1 + k)][:12]) for k in range(min(2, len(ses)))],
                rule=f"{suite}: seeded random op sessions on the real code vs the Lean driver, compared line by line; "
                     f"distinct = distinct session texts, non-trivial = per-suite rule (see DESIGN.md)")
    ctx.extra.setdefault("distribution", {})[suite] = dict(sessions=len(ses), corpus_files=ncorp, ops=len(ops_all),
                                                          op_kinds=dict(kinds.most_common(40)), outputs=dict(outs.most_common(25)),
                                                          sessions_cut_short_by_harness_timing=timing_lines[0])
    # a logic disagreement is deterministic, a timing artefact is not: keep only the sessions whose disagreement
    # reproduces when the session is re-run alone (twice)
    unconfirmed = 0
    if bad:
        confirmed = []
        for (s, mism) in bad[:8]:
            if any(first_mismatch(suite, s, canon) is not None for _ in range(2)):
                confirmed.append((s, mism))
            else:
                unconfirmed += 1
        if len(bad) > 8 and confirmed:
            confirmed += bad[8:]
        bad = confirmed
    ctx.extra["distribution"][suite]["disagreements_not_reproduced_on_rerun"] = unconfirmed
    ctx.oblige(f"tie:differential {suite} ({len(ses)} sessions, {len(ops_all)} ops): implementation = model", not bad,
               f"{len(bad)} disagreeing sessions" if bad else "")
    if bad:
        s, mism = bad[0]
        small = shrink(suite, s, canon)
        mm = first_mismatch(suite, small, canon)
        impl2, model2, _, _ = run_pair(suite, small)
        ctx.pending_disagreements = getattr(ctx, "pending_disagreements", []) + [
            dict(kind="differential", suite=suite, ops=small, impl=impl2[:len(small)], model=model2[:len(small)],
                 first_mismatch=dict(index=mm[0], op=small[mm[0]], impl=mm[1], model=mm[2]) if mm else None,
                 original_len=len(s), n_disagreeing_sessions=len(bad),
                 original_first_mismatches=[dict(op=m[1], impl=m[2], model=m[3], session_head=ss[:6]) for ss, m in bad[:5]])]
    ctx.last_run = dict(suite=suite, ops=ops_all, impl=[canon(x) for x in impl[:len(ops_all)]])
    return len(bad)


def spec_monitor(ctx, mode, sig_prefix, what):
    """run the Lean specification monitor (driver mode `mode`) over the history the IMPLEMENTATION produced in
    the last differential run: the properties themselves, judged on the real code, independent of the model"""
    lr = getattr(ctx, "last_run", None)
    if not lr:
        return
    ops, impl = lr["ops"], lr["impl"]
    lines = [f"{o} | {impl[i] if i < len(impl) else 'DEAD'}" for i, o in enumerate(ops)]
    try:
        rc, out = sh([DRIVER, mode], inp="\n".join(lines) + "\n", timeout=600)
    except subprocess.TimeoutExpired:
        ctx.oblige(f"spec monitor {mode} finished", False, "timeout")
        return
    res = out.split("\n")
    nviol = 0
    nok = 0
    start = 0
    for i, o in enumerate(ops):
        if o.split()[:1] == ["reset"]:
            start = i
        r = res[i] if i < len(res) else ""
        if r == "ok":
            nok += 1
        if r == "VIOLATION":
            if lr["suite"] in TIMING_SUITES and nviol < 4:
                # real goroutines and millisecond timers under machine load: the rejection must reproduce when the session is
                # re-run alone (either of two re-runs); what the schedule-dependent defects do is the monitors' business
                again = False
                for _ in range(2):
                    impl2, _, _, _ = run_pair(lr["suite"], ops[start:i + 1])
                    l2 = [f"{o2} | {canon_default(impl2[k]) if k < len(impl2) else 'DEAD'}" for k, o2 in enumerate(ops[start:i + 1])]
                    try:
                        _, out2 = sh([DRIVER, mode], inp="\n".join(l2) + "\n", timeout=600)
                    except subprocess.TimeoutExpired:
                        out2 = ""
                    if "VIOLATION" in out2.split("\n"):
                        again = True
                        break
                if not again:
                    ctx.extra.setdefault("spec_monitor_rejections_not_reproduced", []).append(dict(mode=mode, at=lines[i], session_head=ops[start:start + 6]))
                    continue
            nviol += 1
            if nviol <= 2:
                ses = lines[start:i + 1]
                ctx.violation(f"{sig_prefix}:{mode}", f"{what}: the history observed on the implementation is rejected by the specification monitor at `{lines[i]}`",
                              dict(kind="spec-monitor", mode=mode, suite=lr["suite"], history=ses, ops=ops[start:i + 1]), concrete=True)
        if r == "unparsed":
            ctx.oblige(f"spec monitor {mode}: every history line parses", False, lines[i])
    ctx.extra.setdefault("spec_monitor", {})[mode] = dict(history_lines_accepted=nok, violations=nviol)
    ctx.add_cov(traces=0, rule=f"{mode}: the Lean specification monitor run over every implementation history of the suite")


# ----------------------------------------------------------------------------- monitors

def monitor(ctx, name, timeout=1800, args=(), accept=()):
    """direct property monitor on the real code (harness monitor <name> <seed> <tier>)"""
    try:
        rc, out = sh([HARNESS, "monitor", name, str(ctx.seed), ctx.tier] + list(args), env=GOENV, timeout=timeout)
    except subprocess.TimeoutExpired:
        ctx.oblige(f"monitor {name} finished", False, "timeout")
        return None
    i = out.find("{")
    rep = None
    # the report is the last JSON object printed
    for m in re.finditer(r"^\{", out, re.M):
        try:
            rep = json.loads(out[m.start():])
            break
        except Exception:
            continue
    if rep is None:
        ctx.oblige(f"monitor {name} produced a report", False, out[-800:])
        return None
    ctx.add_cov(evaluations=rep.get("evaluations", 0), distinct=rep.get("distinct_nontrivial", 0),
                samples=rep.get("samples") or [], rule=f"{name}: " + rep.get("rule", ""))
    if rep.get("stats"):
        ctx.extra.setdefault("monitor_stats", {})[name] = rep["stats"]
    for v in rep.get("violations") or []:
        if v.get("property") and v["property"] != ctx.prop and v["property"] not in accept:
            continue   # judged by that property's own check
        ctx.violation(v["sig"], v["what"], dict(kind="monitor", monitor=name, seed=ctx.seed, detail=v.get("replay")), concrete=True)
    return rep


# ----------------------------------------------------------------------------- skeleton obligations

def skeleton_diff(name):
    e = os.path.join(V, "expected", "skeletons", name + ".txt")
    g = os.path.join(GEN, "skeletons", name + ".txt")
    a = open(e).read().split("\n") if os.path.exists(e) else []
    b = open(g).read().split("\n") if os.path.exists(g) else []
    return [l for l in difflib.unified_diff(a, b, "expected/" + name, "current/" + name, lineterm="", n=1)]


def check_skeletons(ctx, names):
    """T3: the functions the hand models were written from still have the statement skeleton they had.
    (The same equality is a kernel-checked theorem in the property module; this gives the readable diff.)"""
    changed = {}
    for n in names:
        d = skeleton_diff(n)
        if d:
            changed[n] = d[:60]
    ctx.extra["skeletons_checked"] = len(names)
    return changed


# ----------------------------------------------------------------------------- finish

def finish(ctx, level="proof", checker_cmd=None):
    prop = ctx.prop
    failed = [o for o in ctx.obligations if not o[1]]
    # a broken obligation without a concrete violation is still a violation (no-failing-input-found)
    concrete = [v for v in ctx.violations if v["concrete"]]
    if failed and not concrete:
        pend = getattr(ctx, "pending_disagreements", [])
        ctx.violation("obligation:" + failed[0][0][:80],
                      f"{len(failed)} proof/tie obligations no longer check: " + "; ".join(o[0] for o in failed[:6]),
                      dict(kind="obligation", failed=[dict(name=o[0], detail=o[2][:1500]) for o in failed[:20]],
                           disagreements=pend[:3], skeleton_diffs=ctx.extra.get("skeleton_diffs")),
                      concrete=False)
    elif failed and concrete:
        # attach the broken obligations to the first concrete replay for context
        pass
    seen_sigs = {k["sig"] for k in ctx.known_seen}
    for k in ctx.known:
        tag = "reproduced in this run" if k["sig"] in seen_sigs else "listed, not reproduced by this run's sampling"
        print(f"KNOWN-FINDING: property={prop} sig={k['sig']} ({tag}) {k['what']}")
    nobl = len(ctx.obligations)
    ndis = len([o for o in ctx.obligations if o[1]])
    cov = dict(ctx.cov)
    cov.update(obligations=nobl, discharged=ndis,
               checker_cmd=checker_cmd or f"cd /verif/lean && lake build OcppProps.{prop} && lake env lean .audit/{prop}.lean",
               trusted_base=TRUSTED_BASE + ctx.extra.get("trusted_extra", []),
               rule=" | ".join(ctx.rules) or "see obligations",
               obligation_list=[dict(name=o[0], ok=o[1]) for o in ctx.obligations],
               known_findings_seen=[k["sig"] for k in ctx.known_seen])
    if not cov["samples"]:
        cov["samples"] = [o[0] for o in ctx.obligations[:5]]
    for k, v in ctx.extra.items():
        if k not in ("trusted_extra",):
            cov[k] = v
    ev = dict(property_id=prop, tier=ctx.tier, seed=ctx.seed, level=level, coverage=cov,
              assumptions=ctx.assumptions, wall_s=round(time.time() - ctx.t0, 2), violations=len(ctx.violations))
    os.makedirs(os.path.join(V, "evidence"), exist_ok=True)
    with open(os.path.join(V, "evidence", f"{prop}.json"), "w") as f:
        json.dump(ev, f, indent=1, default=str)
    for v in ctx.violations:
        suffix = "" if v["concrete"] else " no-failing-input-found"
        print(f"VIOLATION property={prop} replay={v['path']}{suffix}")
    print(f"[{prop}] tier={ctx.tier} seed={ctx.seed} obligations={ndis}/{nobl} evaluations={cov['evaluations']} "
          f"violations={len(ctx.violations)} known={len(ctx.known_seen)} wall={ev['wall_s']}s")
    return 1 if ctx.violations else 0


# ----------------------------------------------------------------------------- replay

def replay(prop, path):
    body = json.load(open(os.path.join(V, path) if not os.path.isabs(path) else path))
    r = body.get("replay", {})
    print(json.dumps({k: body[k] for k in ("property", "sig", "what")}, indent=1))
    ctx = Ctx(prop, "quick", 0)
    with Lock():
        regenerate(ctx, need_reggen=False)
        sh(["lake", "build", "driver"], cwd=LEAN)
    if r.get("kind") == "differential":
        impl, model, _, _ = run_pair(r["suite"], r["ops"])
        for i, o in enumerate(r["ops"]):
            a = impl[i] if i < len(impl) else "<none>"
            b = model[i] if i < len(model) else "<none>"
            print(f"{'  ' if canon_default(a) == canon_default(b) else '!!'} {o:40s} impl={a}   model={b}")
    elif r.get("kind") == "monitor":
        rc, out = sh([HARNESS, "monitor", r["monitor"], str(r.get("seed", 0)), "quick"], env=GOENV)
        print(out[-4000:])
    else:
        print(json.dumps(r, indent=1)[:6000])
    return 0


def main(argv):
    from props import PROPS, run_property, do_setup, do_expected
    if not argv:
        print(__doc__ or "usage: check <Cxx> quick|thorough")
        return 2
    if argv[0] == "setup":
        return do_setup()
    if argv[0] == "expected":
        return do_expected()
    prop = argv[0]
    if len(argv) >= 3 and argv[1] == "--replay":
        return replay(prop, argv[2])
    tier = argv[1] if len(argv) > 1 else os.environ.get("VERIF_TIER", "quick")
    seed = int(os.environ.get("VERIF_SEED", "1"))
    if prop not in PROPS:
        print(f"unknown property {prop}")
        return 2
    ctx = Ctx(prop, tier, seed)
    return run_property(ctx)
