import re, os, glob, collections

LIB = "github.com/lorenzodonini/ocpp-go/"


def parse_reports(text):
    """split race-detector output into reports; each: list of stacks; a stack = (header, [(func, file:line)])"""
    reps = []
    for blk in re.split(r"={18,}\n", text):
        if "WARNING: DATA RACE" not in blk:
            continue
        stacks = []
        cur = None
        lines = blk.split("\n")
        i = 0
        while i < len(lines):
            l = lines[i]
            if re.match(r"^(Read|Write|Previous read|Previous write|Goroutine \d+ \(|Atomic|Previous atomic)", l.strip()) or l.strip().startswith("Previous "):
                cur = (l.strip(), [])
                stacks.append(cur)
            elif cur is not None and l.startswith("  ") and i + 1 < len(lines) and lines[i + 1].startswith("      "):
                cur[1].append((l.strip(), lines[i + 1].strip()))
                i += 1
            i += 1
        reps.append(stacks)
    return reps


def lib_frame(frames):
    """first library (non-test, non-harness) frame of an access stack; None if a harness frame comes first"""
    for fn, loc in frames:
        if fn.startswith("main.") or "/verifharness/" in fn or "/verif/go/" in loc:
            return None
        if LIB in fn and "_test" not in loc:
            f = fn[fn.index(LIB) + len(LIB):]
            f = re.sub(r"\(\)$", "", f)
            f = re.sub(r"\.func\d+(\.\d+)*$", "", f)
            return f, loc.split(" ")[0].replace("/repo/", "")
        if fn.startswith("runtime.") or fn.startswith("sync") or fn.startswith("internal/"):
            continue
    return None


def summarize(paths):
    text = ""
    for p in paths:
        try:
            text += open(p, errors="replace").read() + "\n"
        except OSError:
            pass
    out = collections.OrderedDict()
    total = 0
    for stacks in parse_reports(text):
        acc = [s for s in stacks if not s[0].startswith("Goroutine")][:2]
        if len(acc) < 2:
            continue
        total += 1
        a, b = lib_frame(acc[0][1]), lib_frame(acc[1][1])
        if not a or not b:
            continue          # one side is harness / dependency code: not a race inside the library
        fa, fb = sorted([a[0], b[0]])
        sig = f"race:{fa}|{fb}"
        if sig not in out:
            out[sig] = dict(sig=sig, first=f"{acc[0][0]} @ {a[0]} ({a[1]})", second=f"{acc[1][0]} @ {b[0]} ({b[1]})", count=0,
                            report="\n".join([s[0] + "\n" + "\n".join("  " + f + "  " + l for f, l in s[1][:8]) for s in stacks[:4]])[:3000])
        out[sig]["count"] += 1
    return total, list(out.values())


if __name__ == "__main__":
    import sys
    total, races = summarize(glob.glob(sys.argv[1]))
    print("reports:", total, "library races:", len(races))
    for r in races:
        print(r["count"], r["sig"], "|", r["first"], "<->", r["second"])
