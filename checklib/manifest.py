#!/usr/bin/env python3
"""Regenerates /verif/MANIFEST.json from the table below (kept in one place so it is always valid)."""
import json, os
V = os.path.dirname(os.path.dirname(os.path.abspath(__file__)))

BASE_NOTE = ("Trusted: Lean 4.33.0 kernel; axioms propext/Classical.choice/Quot.sound only (audited on every run); "
             "the hand-written model and the translators/harness that tie it to /repo (go/cmd/extract, go/cmd/reggen, go/cmd/harness). ")

CLAIMS = {
    "C12": dict(
        technique="Lean 4 proof (induction over operation lists, refinement to List/partial-map specs) over models whose guards are regenerated from the Go source; differential + linearizability validation",
        text="Kernel-checked theorems for every capacity, element type and unbounded operation sequence: size<=cap, a rejected push leaves the queue equal, push succeeds after a pop, FIFO refinement, map/slot semantics, TryQueue rollback (map equal to before), Dequeue never panics. Guards are re-translated from /repo on every run (T2), method bodies are fingerprinted (T3), and the executable model is diffed against the real containers on seeded op sequences; concurrent histories are checked for linearizability.",
        note=BASE_NOTE + "Concurrency: each method is modelled as one atomic step (mutex-protected body; validated by porcupine runs, pinned by T3 fingerprints).",
        design="5/C12"),
}

CLAIMS["C20"] = dict(
    technique="Lean 4 proof over a model whose null/quote tests are translated from the Go source on every run; complete kernel-decided era table for the calendar arithmetic; differential validation of the parser/format model against the real libraries",
    text="Kernel-checked for every byte string / instant: null(b) holds exactly for the bytes `null` (re-proved against the regenerated source text), only null leaves the field unset, every non-string token is rejected, a string token is accepted exactly when the ISO 8601 parser accepts its content, no panic on well-formed tokens; for every instant the UTC wall clock printed by Format is a valid date and denotes the same instant when read back (civil arithmetic proved via a completely decided 146097-day table). The digit-level step parse(format t) is kernel-evaluated on instances and diffed on generated instants (roundtrip_partial).",
    note=BASE_NOTE + "Modelled, not verified: Go's time package and relvacode/iso8601 v1.6.0 (byte-level model diffed against the real libraries on every run). Known finding: the third-party parser is lenient (open: iso8601-lenient). S1 (&& instead of ||) repaired by fix commit ea428f5.",
    design="5/C20")

CLAIMS["C18"] = dict(
    technique="Lean 4: complete kernel-decided table checks over registries regenerated from the Go source by reflection + go/ast, lifted to the quantified statements by generic lemmas; every table fact replayed on the real code",
    text="The quantifier is a finite set enumerated completely: T1 regenerates, on every run, feature/profile tables, name agreement, constructor profile lists, both roles' send allow-lists, receive switches, typed helpers, handler interfaces, field tags, all RegisterValidation calls and every enumeration (validator case list vs exported constants). Theorems (decide over the whole table + generic spec lemmas for any registry): unique profile, names agree, send = committed protocol assignment and covers all features, receive = peer send, helpers = allow-list, tags resolved, no tag bound to two functions across both versions, exported constants accepted (partial for 1.6: three listed known findings), accepted sets = committed enumerations. The monitor replays all 1788 cells on the real endpoints/validator.",
    note=BASE_NOTE + "The OCPP role assignment and enumerations are represented by committed snapshots (expected/roles.json, expected/enums.json). Known findings: blocking SendRequest of client roles has no allow-list; securefirmware.FirmwareStatus exports three constants its validator rejects.",
    design="5/C18")

NOT_YET = {}


def main():
    props = [json.loads(l) for l in open(os.path.join(V, "properties.jsonl"))]
    checks = []
    na = []
    for p in props:
        pid = p["id"]
        if pid in CLAIMS:
            c = CLAIMS[pid]
            checks.append(dict(
                property_id=pid,
                quick_cmd=f"./check {pid} quick",
                thorough_cmd=f"./check {pid} thorough",
                evidence_file=f"/verif/evidence/{pid}.json",
                replay_cmd_template=f"./check {pid} --replay {{path}}",
                engine="lean4+harness",
                level_claimed=dict(category="proof", text=c["text"], design_ref=c.get("design", "")),
                level_note=c["note"],
                technique=c["technique"]))
        else:
            na.append(dict(property_id=pid, reason=NOT_YET.get(pid, "check not built yet in this session (work in progress; see DESIGN.md section 11) — the technique applies, nothing is claimed until the machinery exists")))
    m = dict(
        version=1,
        setup_cmd="./check setup",
        hooks=dict(guard="verif", enable="go build -tags verif (the harness in /verif/go is built with it)",
                   baseline_off_cmd="cd /repo && go test -mod=mod -json -vet=off -count=1 -timeout 25m ./...",
                   source_commits=open(os.path.join(V, "hooks_commits.txt")).read().split() if os.path.exists(os.path.join(V, "hooks_commits.txt")) else [],
                   add_only=True),
        engines=[dict(name="lean4+harness", path="/verif/lean, /verif/go, /verif/check",
                      serves_properties=sorted(CLAIMS),
                      kind_free_text="Lean 4 models + theorems (lake), Go translators regenerating lean/OcppGen from /repo, Go differential harness and property monitors, python driver")],
        checks=checks,
        notes="See DESIGN.md. Every check regenerates lean/OcppGen from /repo's working tree, kernel-checks the property module, audits axioms, runs the correspondence harness against the real code and classifies findings against known_findings.txt.",
        not_applicable=na)
    json.dump(m, open(os.path.join(V, "MANIFEST.json"), "w"), indent=1)
    print("claimed:", sorted(CLAIMS), "not claimed:", [x["property_id"] for x in na])


if __name__ == "__main__":
    main()
