#!/usr/bin/env python3
"""Regenerates /verif/MANIFEST.json from the table below (kept in one place so it is always valid)."""
import json, os
V = os.path.dirname(os.path.dirname(os.path.abspath(__file__)))

BASE_NOTE = ("Trusted: Lean 4.33.0 kernel; axioms propext/Classical.choice/Quot.sound only (audited on every run); "
             "the hand-written model and the translators/harness that tie it to /repo (go/cmd/extract, go/cmd/reggen, go/cmd/harness). ")

CLAIMS = {
    "C12": dict(
        technique="Lean 4 proof (induction over operation lists, refinement to List/partial-map specs) over models whose guards are regenerated from the Go source; differential + linearizability validation",
        text="Kernel-checked theorems for every capacity, element type and unbounded operation sequence: size<=cap, a rejected push leaves the queue equal, push succeeds after a pop, FIFO refinement, map/slot semantics, TryQueue rollback (map equal to before), Dequeue never panics. Guards are re-translated from /repo on every run (T2), method bodies are fingerprinted (T3), and the executable model is diffed against the real containers on seeded op sequences; concurrent histories are checked for linearizability.",
        note=BASE_NOTE + "Concurrency: each method is modelled as one atomic step (mutex-protected body; validated by porcupine runs, pinned by T3 fingerprints).",
        design="5/C12"),
}

CLAIMS["C20"] = dict(
    technique="Lean 4 proof over a model whose null/quote tests are translated from the Go source on every run; complete kernel-decided era table for the calendar arithmetic; differential validation of the parser/format model against the real libraries",
    text="Kernel-checked for every byte string / instant: null(b) holds exactly for the bytes `null` (re-proved against the regenerated source text), only null leaves the field unset, every non-string token is rejected, a string token is accepted exactly when the ISO 8601 parser accepts its content, no panic on well-formed tokens; for every instant the UTC wall clock printed by Format is a valid date and denotes the same instant when read back (civil arithmetic proved via a completely decided 146097-day table). The digit-level step parse(format t) is kernel-evaluated on instances and diffed on generated instants (roundtrip_partial).",
    note=BASE_NOTE + "Modelled, not verified: Go's time package and relvacode/iso8601 v1.6.0 (byte-level model diffed against the real libraries on every run). Known finding: the third-party parser is lenient (open: iso8601-lenient). S1 (&& instead of ||) repaired by fix commit ea428f5.",
    design="5/C20")

CLAIMS["C18"] = dict(
    technique="Lean 4: complete kernel-decided table checks over registries regenerated from the Go source by reflection + go/ast, lifted to the quantified statements by generic lemmas; every table fact replayed on the real code",
    text="The quantifier is a finite set enumerated completely: T1 regenerates, on every run, feature/profile tables, name agreement, constructor profile lists, both roles' send allow-lists, receive switches, typed helpers, handler interfaces, field tags, all RegisterValidation calls and every enumeration (validator case list vs exported constants). Theorems (decide over the whole table + generic spec lemmas for any registry): unique profile, names agree, send = committed protocol assignment and covers all features, receive = peer send, helpers = allow-list, tags resolved, no tag bound to two functions across both versions, exported constants accepted (partial for 1.6: three listed known findings), accepted sets = committed enumerations. The monitor replays all 1788 cells on the real endpoints/validator.",
    note=BASE_NOTE + "The OCPP role assignment and enumerations are represented by committed snapshots (expected/roles.json, expected/enums.json). Known findings: blocking SendRequest of client roles has no allow-list; securefirmware.FirmwareStatus exports three constants its validator rejects.",
    design="5/C18")

DISP_NOTE = BASE_NOTE + "Quiescence granularity (events one at a time, goroutines run to quiescence); A-ID fresh ids; A-TIME timers; sub-quiescence interleavings are searched by the schedule monitors (disp_stress, disp_sched), whose findings on the unchanged tree are listed in known_findings.txt by kind and call site. "
_D = dict(design="5")
CLAIMS["C01"] = dict(technique="Lean 4 refinement proof (client dispatcher model to a specification monitor, all histories) + layered theorem for the callback matching + differential / specification-monitor runs on the real endpoints",
    text="Proved: every well-formed history of the client endpoint model is accepted by the specification monitor (conclusions only for the outstanding / oldest waiting request, at most once, none for rejected requests, none after stop); the protocol layer's by-order callback matching delivers every conclusion to the request's own callback for every ocppj history the specification accepts (client roles, all histories). Validated, not proved: server model vs its per-client specification. Implementation tied by four differential suites (cdisp, sdisp, l3c, l3s: ocppj client/server and all four protocol endpoints on fake websockets) and by running the Lean specification monitors over every implementation history. Partial below quiescence (known findings S4/S5/S8).",
    note=DISP_NOTE, **_D)
CLAIMS["C02"] = dict(technique="Lean 4 refinement proof to a specification monitor whose `wrote` clause is the property; differential + monitor runs",
    text="Proved for the client endpoint, all histories at quiescence granularity: a CALL is written only with nothing outstanding, it is the oldest accepted unwritten one, never while paused, hence at most once. Server: clause structure proved, refinement validated by monitor runs over model and implementation histories (C02_server_partial). Duplicate dispatch below quiescence (S8/S9/S10) is a known finding.",
    note=DISP_NOTE, **_D)
CLAIMS["C03"] = dict(technique="Lean 4 proof of the decision logic stated outright (all configurations, outcomes, strings) over regenerated guards and dispatch tables; exhaustive differential matrix on the real endpoints",
    text="Proved: with a working connection exactly one reply, the one the property's table prescribes (handler response / handler's code / NotSupported / constraint-violation class by dialect / GenericError / InternalError; invalid handler codes fall back to GenericError); never more than one reply; the handler runs iff the action is known, its handler set and this role receives it; the valid-code set is exactly OCPP-J's; the regenerated action switches are coherent (asserted type = feature's request type, method in the profile's handler interface). The matrix (feature x outcome x handler x role x write) runs on fresh real endpoints against the model and an independent oracle.",
    note=BASE_NOTE + "Handlers are generated stubs; concurrency between CALLs adds no shared state in the model (each CALL is answered from its own arguments).", **_D)
CLAIMS["C04"] = dict(technique="Lean 4 proofs over a generic model of the JSON codec (any schema, any JSON value) and of the OCPP-J framing composed with the receive-path model; schemas regenerated by reflection and compared with a committed snapshot; differential on the real ocppj.Endpoint for every payload type (model = implementation incl. a hash of the re-serialised tree) with a second endpoint for the round trip",
    text="Proved: frames have exactly the three OCPP-J shapes; a CALL / CALL_RESULT / CALL_ERROR that a sender can create is classified by the peer's ParseMessage model as the same kind, id and action; re-serialising a decoded payload is idempotent for every schema with distinct json keys and every well-typed value (norm_idem, mutual structural induction), only declared keys go on the wire, each field contributes its normalised value or nothing under omitempty; the 412 payload schemas regenerated from the tree are all well-formed (kernel-decided), so the theorem applies to every request and response of every feature of both versions. Payload equality at the byte level is checked, not proved: every generated valid payload of all payload types x optional-field modes x both EscapeHTML settings is serialised by one real endpoint, parsed and re-serialised by a second one, bytes compared.",
    note=BASE_NOTE + "encoding/json is a trusted library (tree-level model, diffed); DateTime is C20's subject; floats in canonical form only.", **_D)
CLAIMS["C05"] = dict(technique="Lean 4 proofs over the generic validator model (any schema, any JSON value): first failing tag, error-code class by dialect, sender/receiver agreement; constraint snapshot as the oracle for 'the OCPP constraints'; differential + property oracle on the real ocppj.Endpoint with single-constraint mutants of every constrained field",
    text="Proved for any schema and value: for scalar fields the validator finds no failing tag iff the field is empty under omitempty or required is met and every tag holds (scalar_check_iff); a missing required scalar is reported as required; nil pointers fail with their first tag unless omitempty; tags on struct-kind fields are never evaluated (why non-pointer DateTime needs a struct-level validator); accepted iff well-typed and no failing tag; the receiver validates the same value the sender validated (sender_receiver_agree, via C04's idempotence). The code of a rejected payload is the dialect's Occurrence code for a missing required field, PropertyConstraintViolation for length / bound moves, Formation/FormatViolation for a wrong JSON type, always a valid OCPP-J code; accepted iff no code; sender and receiver apply the same function. Checked on the real endpoints for every payload type: valid payloads (from the snapshot, all optional-field modes, boundary values) are accepted by sender and receiver, each single violation (required dropped, max+1, bound-1, empty mandatory array, undeclared enumeration value, wrong JSON type) is refused by both with the prescribed code. Two defects found by this check were repaired (be7ce89 missing 1.6 hashAlgorithm validator, 561e228 missing dive on chargingSchedulePeriod). Enumeration violations are answered with GenericError (design question S16): the oracle only requires a refusal for them.",
    note=BASE_NOTE + "The committed snapshot expected/schemas.json stands in for the OCPP specification; validator v9 is a trusted library whose tag semantics are re-implemented in the model and diffed.", **_D)
CLAIMS["C06"] = dict(technique="Lean 4 proof over a total model of the OCPP-J receive path (every decoded JSON value, every payload verdict) composed with the dispatcher refinement: invariant preserved by every interleaving of arbitrary frames with API events; differential on real endpoints with malformed-frame stream; process-isolated fuzz monitor on the four protocol endpoints",
    text="Proved: a frame that is not a CALL_RESULT/CALL_ERROR carrying the non-empty id of the outstanding request leaves the whole endpoint state equal (client: every field; server: every client's record); such a state-changing frame is exactly the dispatcher event `reply id`, so every unbounded interleaving of arbitrary frames (any JSON value or non-JSON, any payload verdict) with well-formed API/connection events keeps the client invariant (alive: no panic, nothing wedged; bookkeeping = specification); an error reply is written only with the frame's own non-empty id of at most 36 characters and a valid OCPP-J code, at most one per frame. Server side: state-equality and reply-event theorems (the server refinement is not proved; its liveness is C07_partial). Crash freedom of typed decoding for arbitrary payloads is searched (fuzz monitor), not proved.",
    note=BASE_NOTE + "Model starts at the decoded JSON value (encoding/json trusted). Payload decoding/validation is a parameter of the model; its panic-freedom on arbitrary payloads is only searched by monitor c06_fuzz.", **_D)
CLAIMS["C07"] = dict(technique="Lean 4 invariant proof (no wedged / crashed quiescent state, progress clause) + schedule search on the implementation",
    text="The full property is false of the code (deadlocks reproduced on the unchanged tree: known findings S11). Proved (C07_partial): for every history at quiescence granularity the client endpoint never wedges or panics, internal activity terminates, every quiescent state has the head written or the queue empty or is paused, and the ready channel is empty whenever the pump is parked. Progress is also a clause of the specification monitors run over every implementation history (client and server).",
    note=DISP_NOTE, **_D)
CLAIMS["C08"] = dict(technique="Lean 4 refinement proof (time-out clause) + closed-form lemma for the time-out step; differential with real short timeouts",
    text="Proved (client, all histories): a time-out is reported only while time elapses, only for the outstanding request, never while paused, at most once and not after the reply; in every reachable state a time-out cancels exactly the outstanding request and writes the next queued CALL; a stale timer is harmless. Server: clause + instances, validated by monitors. Never-early rests on A-TIME; stale expiries below quiescence (S7/S8) are known findings.",
    note=DISP_NOTE, **_D)
CLAIMS["C09"] = dict(technique="Lean 4 proof by unfolding the regenerated pending-state guard, for every state (not only reachable ones); differential with foreign ids of all four classes",
    text="Proved for every state of the client and server models and every reply whose id is not the id pending on that connection: the step returns the state unchanged and produces nothing, hence any following traffic (the genuine reply) is processed as if the frame had not arrived; handlers fire only for the outstanding request (specification clause).",
    note=DISP_NOTE, **_D)
CLAIMS["C10"] = dict(technique="Lean 4 refinement proof + closed-form lemmas for disconnect / send-while-paused / reconnect / outstanding-survives",
    text="Proved on the client model: nothing is written while paused (all histories), a disconnect keeps queue and outstanding request, sends while paused append in order, reconnection resumes with the oldest unsent request, a request outstanding at the drop is still outstanding afterwards with a fresh time-out (cancelled exactly once by the next wait, or concluded by a late reply).",
    note=DISP_NOTE + "The real ws.Client reconnect loop is C17's subject.", **_D)
CLAIMS["C11"] = dict(technique="Lean 4 proofs for every state of the server model: reject-unknown, session-clean, no-leak, frame (non-interference of client records); per-client specification monitor on implementation histories",
    text="Proved for every state: a send to a client without a live session is rejected with no effect; after a disconnect the client's record is the initial one and it has no timer; a later session with the same id starts from the initial per-client state; an event naming client c leaves every other client's record (queue, pending id, context) equal. The per-client specification (isolation by construction) runs over every implementation history of sdisp and l3s (with and without application handlers). Conclusion-on-disconnect happens in the protocol layer (fix b4d2189 made it unconditional).",
    note=DISP_NOTE, **_D)
CLAIMS["C13"] = dict(technique="Lean 4 invariant proof over every history of the connection-table model (induction over events, per-id callback protocol as a checker function); differential histories on a real server on loopback with raw gorilla clients; concurrent burst monitor with per-connection identity",
    text="Proved for every history of connects, duplicate connects, client closes, TCP drops, StopConnection, writes and Stop (fresh client handles): at most one live connection per id; per id the callbacks alternate new, disconnected, new, ... starting with new (one new-client callback per accepted connection, one disconnected callback when it ends, in that order); the reported set equals the live set; a duplicate is refused with 1008 and leaves every entry untouched; Stop ends all. Granularity: one event to completion. One defect below that granularity was found by the burst monitor and repaired (75f8895: disconnected before new-client callback).",
    note=BASE_NOTE + "Concurrency inside wsHandler/cleanup is tied by fingerprints and searched by ws_burst, not proved.", **_D)
CLAIMS["C14"] = dict(technique="Lean 4 proof of the admission decision stated outright (any supported / requested lists, arbitrary handler functions, any credentials, id, origin), negotiation loop proved by induction; differential: real handshakes on loopback against freshly configured real servers",
    text="Proved: a handshake is admitted iff the auth handler (if set) accepts well-formed basic-auth credentials, the check-client handler (if set) returns true, gorilla's upgrade preconditions hold, the origin check passes, a sub-protocol is negotiable (a non-empty requested one, supported if the server lists any) and the id is not already connected; what is negotiated is the first such protocol in the client's order; a refused client gets HTTP 400/401/403 or close 1002/1008 and triggers no new-client and no message callback; an admitted one triggers exactly one new-client callback. One defect found by this check was repaired (d5ec4cf: empty list element in the sub-protocol header).",
    note=BASE_NOTE + "gorilla's Upgrade and net/http are trusted dependencies (modelled, differentially exercised).", **_D)
CLAIMS["C15"] = dict(technique="Lean 4 proof over every interleaving of a small-step model of writers / write pump / cleanup (invariant by induction over labels; termination measure + deadlock freedom); the pre-fix code's deadlock as a theorem; sequential differential on real client<->server sockets; concurrent monitor with dead-peer scenarios",
    text="Proved for any number of concurrent writers and every schedule: no send on a closed channel (no panic); what reaches the network is a prefix of what Write accepted, in acceptance order, once each; while open nothing accepted is lost; a Write after cleanup returns an error; every step decreases a measure and whenever a Write has not returned some step is enabled, so every Write returns (never blocks forever). The same model without the closing channel deadlocks (theorem old_code_deadlocks): that defect was reproduced on the real code (graceful close racing 3+ writers; dead peer) and repaired (3faee00). Content fidelity for sizes up to 300 KiB and multi-byte UTF-8 is checked with hashes by the monitor (A-NET), not proved.",
    note=BASE_NOTE + "Below the sequential schedule the model is tied to the source by fingerprints and the concurrent monitor only; gorilla/TCP are trusted.", **_D)
CLAIMS["C17"] = dict(technique="Lean 4 invariant proof over every history of the websocket-client model (stop/start cycles, server availability), closed-form lemmas for loss / retry / stop, pure arithmetic for the back-off recursion and the read-deadline keep-alive, decision logic for which side keeps which deadline alive; differential on the real client against a scriptable raw server and on real client<->server pairs for all ping/pong configurations",
    text="Proved for every history: the abort token never survives a Start, so a connection lost without Stop always notifies the disconnected handler and then reconnects (reconnected handler after it) or enters the retry loop, which only a successful connect or Stop ends; any number of failed attempts keeps it alive; after Stop nothing reconnects and no handler fires until a new Start; Stop is idempotent up to the token. Back-off: monotone, min*2^k <= delay_k <= (min+2*range)*2^k - range while doubling, constant afterwards. Keep-alive: getReadTimeout's preference chain; frames at most `wait` apart never time out; pongs within p+l<=wait keep the connection for any number of pings; a time-out happens exactly `wait` after the last timely frame; which side survives for every configuration. Three defects found by this check were repaired (58ca140 panic on closed error channel after restart, ac0ba11 stale token after restart, cd70867 double Stop re-enables reconnection).",
    note=BASE_NOTE + "Real time, read deadlines and TCP are assumptions (A-TIME, A-NET); races of Stop against a teardown in progress are searched by c16_stop, not proved.", **_D)
CLAIMS["C16"] = dict(technique="Lean 4 proofs on the quiescent models (restart_fresh as a state equality, stop_is_silent, always_alive) + differential suites with stop/start at random points",
    text="Proved: in every reachable state Stop returns, drops queue and outstanding request silently, afterwards sends are refused and replies/timers discarded; Stop then Start yields a state equal to a freshly started endpoint. Three defects found by this check were repaired (094ff1f, 68f3322, b4d2189). The websocket client's Stop / restart behaviour is proved in C17's model (no reconnection after Stop, restart reconnects like a fresh client; fixes 58ca140, ac0ba11, cd70867) and exercised here by suite wscli; monitor c16_stop searches Stop with more clients than the dispatcher's channel capacity and Stop racing a teardown in progress. Partial: Stop racing sends below quiescence (S12) is not covered by theorems.",
    note=DISP_NOTE, **_D)

NOT_YET = {}


def main():
    props = [json.loads(l) for l in open(os.path.join(V, "properties.jsonl"))]
    checks = []
    na = []
    for p in props:
        pid = p["id"]
        if pid in CLAIMS:
            c = CLAIMS[pid]
            checks.append(dict(
                property_id=pid,
                quick_cmd=f"./check {pid} quick",
                thorough_cmd=f"./check {pid} thorough",
                evidence_file=f"/verif/evidence/{pid}.json",
                replay_cmd_template=f"./check {pid} --replay {{path}}",
                engine="lean4+harness",
                level_claimed=dict(category="proof", text=c["text"], design_ref=c.get("design", "")),
                level_note=c["note"],
                technique=c["technique"]))
        else:
            na.append(dict(property_id=pid, reason=NOT_YET.get(pid, "check not built yet in this session (work in progress; see DESIGN.md section 11) — the technique applies, nothing is claimed until the machinery exists")))
    m = dict(
        version=1,
        setup_cmd="./check setup",
        hooks=dict(guard="verif", enable="go build -tags verif (the harness in /verif/go is built with it)",
                   baseline_off_cmd="cd /repo && go test -mod=mod -json -vet=off -count=1 -timeout 25m ./...",
                   source_commits=open(os.path.join(V, "hooks_commits.txt")).read().split() if os.path.exists(os.path.join(V, "hooks_commits.txt")) else [],
                   add_only=True),
        engines=[dict(name="lean4+harness", path="/verif/lean, /verif/go, /verif/check",
                      serves_properties=sorted(CLAIMS),
                      kind_free_text="Lean 4 models + theorems (lake), Go translators regenerating lean/OcppGen from /repo, Go differential harness and property monitors, python driver")],
        checks=checks,
        notes="See DESIGN.md. Every check regenerates lean/OcppGen from /repo's working tree, kernel-checks the property module, audits axioms, runs the correspondence harness against the real code and classifies findings against known_findings.txt.",
        not_applicable=na)
    json.dump(m, open(os.path.join(V, "MANIFEST.json"), "w"), indent=1)
    print("claimed:", sorted(CLAIMS), "not claimed:", [x["property_id"] for x in na])


if __name__ == "__main__":
    main()
